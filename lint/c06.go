package main

import (
	"fmt"
	"go/ast"
	"go/token"
	"go/types"
	"sort"
	"strings"

	"golang.org/x/tools/go/packages"
)

func init() {
	for _, e := range [][2]string{
		{"node.setArrayLiteralEntry#cell-write:z", "the array is the literal under construction (NewArrayValue allocated every cell a few lines earlier in Array.GetValue, the only caller)"},
		{"std/php/spl.(SplFixedArrayOffsetSetMethod).Call#cell-write:sfaGetStorage(cv).List[i]", "private storage of an SplFixedArray object; objects are shared by handle and toArray() hands out a copy of the slot list only (cells shared: a later offsetSet shows through an earlier toArray() result — recorded in DESIGN.md as an observation, SPL is outside C06's routes)"},
		{"std/php/spl.(SplFixedArrayOffsetUnsetMethod).Call#cell-write:sfaGetStorage(cv).List[i]", "same storage as SplFixedArray::offsetSet"},
		{"std/php/spl.aoOffsetSet#cell-write:z", "private storage of an ArrayObject; same reasoning as SplFixedArray"},
		{"std/php/spl.(SplDLLOffsetSetMethod).Call#cell-write:arr.List[i]", "private storage of an SplDoublyLinkedList"},
	} {
		assumeSite("C06-CELL", e[0], e[1])
	}
	register(&PropDef{
		ID:          "C06",
		Patterns:    []string{"./data", "./node", "./runtime", "./std/..."},
		Explanation: "Assignment copies an array shallowly: CloneArrayValue copies the slot slice and shares the *ZVal cells. Two disciplines are then necessary for value semantics and both are visible in the code: (CELL) nothing writes the Value of a cell that was taken from an array's slot list unless the write is guarded by RefSlotCount > 0 (an explicit & binding) — stores replace the cell instead; (SINK) every function that places a value into a variable slot, a property, or an array element copies an *ArrayValue first (CloneArrayValue), and clone copies own properties through such a sink. Nested arrays (the inner array object is still shared by a shallow copy), in-place sort/push internals and reference semantics are not decided.",
		Assumptions: []string{
			"a cell is 'from a slot list' when it is X.List[i], a range value over X.List, or the result of FindSlotByIntKey, for X of type *data.ArrayValue; cells obtained from a Context are variable slots",
			"functions that write a cell received as a parameter are summarised and their call sites checked one level up",
		},
		Rules: []RuleDef{
			{Name: "C06-CELL", Floor: 8, Doc: "no unguarded in-place write of a cell taken from an array's slot list", Run: c06Run},
			{Name: "C06-NEST", Floor: 1, Doc: "a store through a nested index path ($b[0][1] = v) detaches the inner array from other copies before writing into it", Run: nop},
			{Name: "C06-SINK", Floor: 3, Doc: "every container store copies an array value first; clone copies properties through such a store", Run: nop},
		},
	})
}

func c06Run(r *Run) {
	dpkg := r.pkg("data")
	if dpkg == nil {
		return
	}
	zval := r.lookupType(dpkg, "ZVal")
	arrT := r.lookupType(dpkg, "ArrayValue")
	if zval == nil || arrT == nil {
		return
	}
	isZ := func(t types.Type) bool {
		p, ok := t.(*types.Pointer)
		return ok && namedOf(p.Elem()) == zval
	}
	isArr := func(t types.Type) bool {
		if p, ok := t.(*types.Pointer); ok {
			t = p.Elem()
		}
		return namedOf(t) == arrT
	}
	// an array copier, by role: a function or method of the module with exactly one *ArrayValue input
	// (parameter or receiver) and a *ArrayValue result whose body allocates a new ArrayValue
	copierMemo := map[*types.Func]bool{}
	isCopier := func(f *types.Func) bool {
		if f == nil {
			return false
		}
		if v, ok := copierMemo[f]; ok {
			return v
		}
		copierMemo[f] = false
		sig, ok := f.Type().(*types.Signature)
		if !ok || sig.Results().Len() != 1 || !isArr(sig.Results().At(0).Type()) {
			return false
		}
		inputs := 0
		if sig.Recv() != nil && isArr(sig.Recv().Type()) {
			inputs++
		}
		for i := 0; i < sig.Params().Len(); i++ {
			if isArr(sig.Params().At(i).Type()) {
				inputs++
			}
		}
		if inputs != 1 {
			return false
		}
		hp, hd := r.declAnywhere(f)
		if hd == nil {
			return false
		}
		allocates := false
		ast.Inspect(hd.Body, func(n ast.Node) bool {
			if u, ok := n.(*ast.UnaryExpr); ok && u.Op == token.AND {
				if cl, ok := u.X.(*ast.CompositeLit); ok && isArr(hp.TypesInfo.TypeOf(cl)) {
					allocates = true
				}
			}
			return true
		})
		copierMemo[f] = allocates
		return allocates
	}
	// copySource: the array a copier call copies (its *ArrayValue argument or receiver), nil if not a copier call
	copySource := func(info *types.Info, c *ast.CallExpr) ast.Expr {
		f, _ := calleeOf(info, c).(*types.Func)
		if !isCopier(f) {
			return nil
		}
		for _, a := range c.Args {
			if isArr(info.TypeOf(a)) {
				return a
			}
		}
		if se, ok := ast.Unparen(c.Fun).(*ast.SelectorExpr); ok && isArr(info.TypeOf(se.X)) {
			return se.X
		}
		return nil
	}
	c06IsCopierCall = func(info *types.Info, c *ast.CallExpr) bool { return copySource(info, c) != nil }
	pkgs := []*packages.Package{}
	for path, p := range r.ByPath {
		if strings.HasPrefix(path, modPath+"/data") || strings.HasPrefix(path, modPath+"/node") || strings.HasPrefix(path, modPath+"/runtime") || strings.HasPrefix(path, modPath+"/std") {
			pkgs = append(pkgs, p)
		}
	}
	sort.Slice(pkgs, func(i, j int) bool { return pkgs[i].PkgPath < pkgs[j].PkgPath })

	r.curRule = "C06-CELL"
	type origin int
	const (
		oUnknown origin = iota
		oList           // from an array's slot list
		oFresh          // allocated here
		oSlot           // variable slot of a context
		oParam
	)
	// paramWriters: function → indices of *ZVal parameters whose Value it writes unguarded
	type pw struct {
		fn  *types.Func
		idx int
	}
	paramWriters := map[pw]token.Pos{}
	sliceWriters := map[pw]token.Pos{} // functions that write cells of a []*ZVal parameter in place

	// helpers that hand out a cell of an array's slot list (existingSlot(arr, key) *ZVal): their result is
	// a slot-list cell wherever it is used
	cellReturners := map[*types.Func]bool{}
	for _, p := range pkgs {
		info := p.TypesInfo
		for _, fd := range funcDecls(p) {
			fn, _ := info.Defs[fd.Name].(*types.Func)
			if fn == nil || fd.Body == nil || fn.Name() == "FindSlotByIntKey" {
				continue
			}
			sig := fn.Type().(*types.Signature)
			if sig.Results().Len() == 0 || !isZ(sig.Results().At(0).Type()) {
				continue
			}
			fromList := map[types.Object]bool{}
			isListExpr := func(e ast.Expr) bool {
				switch x := ast.Unparen(e).(type) {
				case *ast.IndexExpr:
					if se, ok := ast.Unparen(x.X).(*ast.SelectorExpr); ok && se.Sel.Name == "List" && isArr(info.TypeOf(se.X)) {
						return true
					}
				case *ast.CallExpr:
					if cal, ok := calleeOf(info, x).(*types.Func); ok && cal.Name() == "FindSlotByIntKey" {
						return true
					}
				case *ast.Ident:
					return fromList[info.Uses[x]]
				}
				return false
			}
			ast.Inspect(fd.Body, func(n ast.Node) bool {
				switch x := n.(type) {
				case *ast.RangeStmt:
					if se, ok := ast.Unparen(x.X).(*ast.SelectorExpr); ok && se.Sel.Name == "List" && isArr(info.TypeOf(se.X)) {
						if id, ok := x.Value.(*ast.Ident); ok {
							if o := info.Defs[id]; o != nil {
								fromList[o] = true
							}
						}
					}
				case *ast.AssignStmt:
					if len(x.Rhs) == 1 && len(x.Lhs) >= 1 && isListExpr(x.Rhs[0]) {
						if id, ok := x.Lhs[0].(*ast.Ident); ok {
							o := info.Defs[id]
							if o == nil {
								o = info.Uses[id]
							}
							if o != nil && isZ(o.Type()) {
								fromList[o] = true
							}
						}
					}
				}
				return true
			})
			ast.Inspect(fd.Body, func(n ast.Node) bool {
				if _, isLit := n.(*ast.FuncLit); isLit {
					return false
				}
				if rs, ok := n.(*ast.ReturnStmt); ok && len(rs.Results) >= 1 && isListExpr(rs.Results[0]) {
					cellReturners[fn] = true
				}
				return true
			})
		}
	}
	r.stat("slot_cell_returning_helpers", len(cellReturners))
	refPreds := c06RefPredicates(pkgs)
	r.stat("ref_bound_predicates", len(refPreds))
	for _, p := range pkgs {
		info := p.TypesInfo
		for _, fd := range funcDecls(p) {
			fk := funcKey(p, fd)
			// local origins
			org := map[types.Object]origin{}
			sliceParam := map[types.Object]int{}  // []*ZVal parameters → index
			elemOfParam := map[types.Object]int{} // cells taken from such a parameter → its index
			if fd.Type.Params != nil {
				k := 0
				for _, f := range fd.Type.Params.List {
					for _, nm := range f.Names {
						if o := info.Defs[nm]; o != nil && isZ(o.Type()) {
							org[o] = oParam
						}
						if o := info.Defs[nm]; o != nil {
							if sl, ok := o.Type().Underlying().(*types.Slice); ok && isZ(sl.Elem()) {
								sliceParam[o] = k
							}
						}
						k++
					}
					if len(f.Names) == 0 {
						k++
					}
				}
			}
			if len(sliceParam) > 0 {
				ast.Inspect(fd.Body, func(n ast.Node) bool {
					switch x := n.(type) {
					case *ast.RangeStmt:
						if id, ok := ast.Unparen(x.X).(*ast.Ident); ok {
							if pi, ok := sliceParam[info.Uses[id]]; ok {
								if vid, ok := x.Value.(*ast.Ident); ok {
									if o := info.Defs[vid]; o != nil {
										elemOfParam[o] = pi
									}
								}
							}
						}
					case *ast.AssignStmt:
						if len(x.Lhs) == 1 && len(x.Rhs) == 1 {
							if ix, ok := ast.Unparen(x.Rhs[0]).(*ast.IndexExpr); ok {
								if id, ok := ast.Unparen(ix.X).(*ast.Ident); ok {
									if pi, ok := sliceParam[info.Uses[id]]; ok {
										if lid, ok := x.Lhs[0].(*ast.Ident); ok {
											if o := info.Defs[lid]; o != nil {
												elemOfParam[o] = pi
											}
										}
									}
								}
							}
						}
					}
					return true
				})
			}
			// list := arr.List — a local name for an array's slot list (the slice header is copied, the cells are not)
			listAlias := map[types.Object]bool{}
			isSlotList := func(e ast.Expr) bool {
				if se, ok := ast.Unparen(e).(*ast.SelectorExpr); ok && se.Sel.Name == "List" && isArr(info.TypeOf(se.X)) {
					return true
				}
				if id, ok := ast.Unparen(e).(*ast.Ident); ok && listAlias[info.Uses[id]] {
					return true
				}
				return false
			}
			ast.Inspect(fd.Body, func(n ast.Node) bool {
				if as, ok := n.(*ast.AssignStmt); ok && len(as.Lhs) == len(as.Rhs) {
					for i, rh := range as.Rhs {
						if se, ok := ast.Unparen(rh).(*ast.SelectorExpr); ok && se.Sel.Name == "List" && isArr(info.TypeOf(se.X)) {
							if id, ok := as.Lhs[i].(*ast.Ident); ok {
								if o := info.ObjectOf(id); o != nil {
									if _, isParam := sliceParam[o]; !isParam {
										listAlias[o] = true
									}
								}
							}
						}
					}
				}
				return true
			})
			var exprOrigin func(e ast.Expr) origin
			exprOrigin = func(e ast.Expr) origin {
				switch x := ast.Unparen(e).(type) {
				case *ast.Ident:
					if o := info.Uses[x]; o != nil {
						return org[o]
					}
				case *ast.IndexExpr:
					if isSlotList(x.X) {
						return oList
					}
				case *ast.CallExpr:
					if cal, ok := calleeOf(info, x).(*types.Func); ok {
						if cellReturners[cal] {
							return oList
						}
						switch cal.Name() {
						case "FindSlotByIntKey":
							return oList
						case "NewZVal", "NewNamedZVal":
							return oFresh
						case "GetIndexZVal", "GetZVal", "GetVariableZVal":
							return oSlot
						}
					}
				case *ast.UnaryExpr:
					if _, ok := x.X.(*ast.CompositeLit); ok && x.Op == token.AND {
						return oFresh
					}
				}
				return oUnknown
			}
			for pass := 0; pass < 2; pass++ {
				ast.Inspect(fd.Body, func(n ast.Node) bool {
					switch x := n.(type) {
					case *ast.AssignStmt:
						if len(x.Rhs) == 1 && len(x.Lhs) >= 1 {
							if id, ok := x.Lhs[0].(*ast.Ident); ok {
								o := info.Defs[id]
								if o == nil {
									o = info.Uses[id]
								}
								if o != nil && isZ(o.Type()) {
									if og := exprOrigin(x.Rhs[0]); og != oUnknown && org[o] != oList {
										org[o] = og
									}
								}
							}
						}
					case *ast.RangeStmt:
						if isSlotList(x.X) {
							if id, ok := x.Value.(*ast.Ident); ok {
								if o := info.Defs[id]; o != nil {
									org[o] = oList
								}
							}
						}
					}
					return true
				})
			}
			// guards: a write is guarded when on every path to it the cell's RefSlotCount is known to
			// be positive (if / switch / early return, directly or through a predicate such as z.isRefBound())
			guardedAt := c06GuardedWrites(info, fd, refPreds)
			ast.Inspect(fd.Body, func(n ast.Node) bool {
				as, ok := n.(*ast.AssignStmt)
				if !ok {
					return true
				}
				for _, l := range as.Lhs {
					se, ok := ast.Unparen(l).(*ast.SelectorExpr)
					if !ok || (se.Sel.Name != "Value" && se.Sel.Name != "Name") || !isZ(info.TypeOf(se.X)) {
						continue
					}
					// a write through a cell taken from a []*ZVal parameter: judged where the list is handed in
					if !guardedAt[as.Pos()] {
						var pi = -1
						switch b := ast.Unparen(se.X).(type) {
						case *ast.Ident:
							if i, ok := elemOfParam[info.Uses[b]]; ok {
								pi = i
							}
						case *ast.IndexExpr:
							if id, ok := ast.Unparen(b.X).(*ast.Ident); ok {
								if i, ok := sliceParam[info.Uses[id]]; ok {
									pi = i
								}
							}
						}
						if pi >= 0 {
							if f, ok := info.Defs[fd.Name].(*types.Func); ok {
								sliceWriters[pw{f, pi}] = as.Pos()
							}
						}
					}
					if se.Sel.Name == "Name" {
						// the key of a cell is part of what an array copy shares: renaming a slot-list cell in
						// place re-keys every copy of the array
						og := exprOrigin(se.X)
						cell := strings.ReplaceAll(exprStr(se.X), " ", "")
						key := fk + "#cell-rename:" + cell
						if og == oList && c06FreshArrayCell(info, fd, se.X) {
							r.ok(key, as.Pos(), "the cell belongs to an array built in this function")
							continue
						}
						switch {
						case og == oList && guardedAt[as.Pos()]:
							r.ok(key, as.Pos(), "in-place change of a slot-list cell's key only where RefSlotCount > 0 (explicit reference)")
						case og == oList:
							r.bad(key, as.Pos(), "changes the key (Name) of a cell taken from an array's slot list in place: every copy of the array that shares the cell is re-keyed too")
						}
						continue
					}
					og := exprOrigin(se.X)
					cell := strings.ReplaceAll(exprStr(se.X), " ", "")
					key := fk + "#cell-write:" + cell
					guarded := guardedAt[as.Pos()]
					switch {
					case og == oList && guarded:
						r.ok(key, as.Pos(), "in-place write of a slot-list cell only where RefSlotCount > 0 (explicit reference)")
					case og == oList:
						r.bad(key, as.Pos(), "writes the Value of a cell taken from an array's slot list in place: every copy of the array that shares the cell sees the new value")
					case og == oParam && !guarded:
						if id, ok := ast.Unparen(se.X).(*ast.Ident); ok {
							if f, ok := info.Defs[fd.Name].(*types.Func); ok {
								sig := f.Type().(*types.Signature)
								for i := 0; i < sig.Params().Len(); i++ {
									if sig.Params().At(i) == info.Uses[id] {
										paramWriters[pw{f, i}] = as.Pos()
									}
								}
							}
						}
					case og == oSlot:
						// a store into a variable slot is a sink: the stored value must be fresh, a copy, or scalar
						rhs := as.Rhs[0]
						if len(as.Rhs) == len(as.Lhs) {
							for i := range as.Lhs {
								if as.Lhs[i] == l {
									rhs = as.Rhs[i]
								}
							}
						}
						if freshValue(info, fd, rhs, exprStr(se.X), 0) {
							r.ok(key, as.Pos(), "the value stored into the variable slot is built or copied in this function, or is a scalar")
						} else {
							r.curRule = "C06-SINK"
							r.bad(fk+"#slot-store:"+cell, as.Pos(), "stores "+exprStr(rhs)+" into a variable slot directly: a caller's array placed there is not copied (Context.SetVariableValue, which copies, is bypassed), so the callee's writes show through the caller's variable")
							r.curRule = "C06-CELL"
						}
					case og == oFresh:
						r.ok(key, as.Pos(), "the cell was allocated in this function")
					}
				}
				return true
			})
		}
	}
	// call sites of parameter writers
	for _, p := range pkgs {
		info := p.TypesInfo
		for _, fd := range funcDecls(p) {
			fk := funcKey(p, fd)
			ast.Inspect(fd.Body, func(n ast.Node) bool {
				c, ok := n.(*ast.CallExpr)
				if !ok {
					return true
				}
				cal, ok := calleeOf(info, c).(*types.Func)
				if !ok {
					return true
				}
				for i, a := range c.Args {
					if _, ok := sliceWriters[pw{cal, i}]; ok {
						if se, ok := ast.Unparen(a).(*ast.SelectorExpr); ok && se.Sel.Name == "List" && isArr(info.TypeOf(se.X)) {
							r.bad(fk+"#passes-slot-list:"+cal.Name(), c.Pos(), "hands an array's slot list to "+cal.Name()+", which writes the cells (value or key) in place: the cells are shared with every copy of the array, so the copies change too")
						}
					}
				}
				for i, a := range c.Args {
					if _, ok := paramWriters[pw{cal, i}]; !ok {
						continue
					}
					fromList := false
					ast.Inspect(a, func(m ast.Node) bool {
						if ix, ok := m.(*ast.IndexExpr); ok {
							if se, ok := ast.Unparen(ix.X).(*ast.SelectorExpr); ok && se.Sel.Name == "List" && isArr(info.TypeOf(se.X)) {
								fromList = true
							}
						}
						if cc, ok := m.(*ast.CallExpr); ok {
							if f, ok := calleeOf(info, cc).(*types.Func); ok && f.Name() == "FindSlotByIntKey" {
								fromList = true
							}
						}
						return true
					})
					key := fk + "#passes-cell:" + cal.Name()
					if fromList {
						r.bad(key, c.Pos(), "passes a cell of an array's slot list to "+cal.Name()+", which writes the cell's Value in place")
					} else {
						r.ok(key, c.Pos(), "the cell handed to the in-place writer "+cal.Name()+" is not taken from an array's slot list here")
					}
				}
				return true
			})
		}
	}

	// ---- NEST ----
	r.curRule = "C06-NEST"
	if np := r.pkg("node"); np != nil {
		info := np.TypesInfo
		if fd := findFunc(np, "IndexExpression", "SetValue"); fd == nil {
			r.fail("anchor not found: node.(IndexExpression).SetValue")
		} else {
			ie := r.lookupType(np, "IndexExpression")
			found, detaches := token.NoPos, false
			ast.Inspect(fd.Body, func(n ast.Node) bool {
				is, ok := n.(*ast.IfStmt)
				if !ok || is.Init == nil {
					return true
				}
				as, ok := is.Init.(*ast.AssignStmt)
				if !ok || len(as.Rhs) != 1 {
					return true
				}
				ta, ok := ast.Unparen(as.Rhs[0]).(*ast.TypeAssertExpr)
				if !ok || ta.Type == nil {
					return true
				}
				if pt, ok := info.TypeOf(ta.Type).(*types.Pointer); !ok || namedOf(pt.Elem()) != ie {
					return true
				}
				if !found.IsValid() {
					found = is.Pos()
				}
				ast.Inspect(is.Body, func(m ast.Node) bool {
					if c, ok := m.(*ast.CallExpr); ok {
						if copySource(info, c) != nil {
							detaches = true
						}
					}
					return true
				})
				return true
			})
			key := funcKey(np, fd) + "#nested-detach"
			switch {
			case !found.IsValid():
				r.fail("node.(IndexExpression).SetValue: nested-path branch (ie.Array.(*IndexExpression)) not found")
			case detaches:
				r.ok(key, found, "the inner array is copied and stored back before the nested write")
			default:
				r.bad(key, found, "on a nested path the inner array read from the parent is modified as is: the shallow copy made by assignment shares that inner array, so `$b = $a; $b[0][1] = 9` changes $a")
			}
		}
	}

	// ---- SINK ----
	r.curRule = "C06-SINK"
	c06OneValueManySlots(r, pkgs)
	if np := r.pkg("node"); np != nil {
		c06CopySkipped(r, np)
	}
	var clonesValueD func(p *packages.Package, fd *ast.FuncDecl, param types.Object, depth int) bool
	clonesValue := func(p *packages.Package, fd *ast.FuncDecl, param types.Object) bool {
		return clonesValueD(p, fd, param, 0)
	}
	clonesValueD = func(p *packages.Package, fd *ast.FuncDecl, param types.Object, depth int) bool {
		info := p.TypesInfo
		// names bound to the parameter's dynamic *ArrayValue: switch x := param.(type) / x, ok := param.(*ArrayValue)
		bound := map[types.Object]bool{param: true}
		ast.Inspect(fd.Body, func(n ast.Node) bool {
			switch x := n.(type) {
			case *ast.TypeSwitchStmt:
				if as, ok := x.Assign.(*ast.AssignStmt); ok && len(as.Rhs) == 1 {
					if ta, ok := ast.Unparen(as.Rhs[0]).(*ast.TypeAssertExpr); ok {
						if id, ok := ast.Unparen(ta.X).(*ast.Ident); ok && info.Uses[id] == param {
							for _, cc := range x.Body.List {
								if o := info.Implicits[cc]; o != nil {
									bound[o] = true
								}
							}
						}
					}
				}
			case *ast.AssignStmt:
				if len(x.Rhs) == 1 {
					if ta, ok := ast.Unparen(x.Rhs[0]).(*ast.TypeAssertExpr); ok {
						if id, ok := ast.Unparen(ta.X).(*ast.Ident); ok && info.Uses[id] == param {
							if lid, ok := x.Lhs[0].(*ast.Ident); ok {
								if o := info.Defs[lid]; o != nil {
									bound[o] = true
								}
							}
						}
					}
				}
			}
			return true
		})
		found := false
		ast.Inspect(fd.Body, func(n ast.Node) bool {
			c, ok := n.(*ast.CallExpr)
			if !ok {
				return true
			}
			if src := copySource(info, c); src != nil {
				if id, ok := ast.Unparen(src).(*ast.Ident); ok && bound[info.Uses[id]] {
					found = true
				}
			}
			return true
		})
		if found || depth >= 2 {
			return found
		}
		// a copying helper: the value is handed to a function that itself copies an *ArrayValue it is given
		ast.Inspect(fd.Body, func(n ast.Node) bool {
			c, ok := n.(*ast.CallExpr)
			if !ok || found {
				return !found
			}
			f, ok := calleeOf(info, c).(*types.Func)
			if !ok {
				return true
			}
			for i, a := range c.Args {
				id, ok := ast.Unparen(a).(*ast.Ident)
				if !ok || !bound[info.Uses[id]] {
					continue
				}
				hp, hd := r.declAnywhere(f)
				if hd == nil || hd == fd {
					continue
				}
				// only helpers that return the (copied) value
				sig := f.Type().(*types.Signature)
				returnsValue := false
				if sig.Results().Len() == 1 {
					rt := sig.Results().At(0).Type()
					returnsValue = isArr(rt) || isNamed(rt, modPath+"/data", "Value") || isNamed(rt, modPath+"/data", "GetValue")
				}
				if returnsValue {
					// a copying helper whose result is what this function goes on to store
					if !c06ResultUsed(fd, c) {
						continue
					}
				} else if hp.PkgPath != p.PkgPath {
					// a store helper of the same package that receives the value and copies it itself
					// (storeProperty(name, value)); anything else is not followed
					continue
				}
				if po := paramObjAt(hp.TypesInfo, hd, i); po != nil && clonesValueD(hp, hd, po, depth+1) {
					found = true
				}
			}
			return true
		})
		return found
	}
	sinks := []struct{ pkg, recv, fn, param string }{
		{"runtime", "Context", "SetVariableValue", "value"},
		{"runtime", "Context", "SetVariableByName", "value"},
		{"data", "ClassValue", "SetProperty", "value"},
		{"data", "ObjectValue", "SetProperty", "value"},
		{"node", "IndexExpression", "SetValue", "value"},
	}
	for _, s := range sinks {
		p := r.pkg(s.pkg)
		if p == nil {
			continue
		}
		fd := findFunc(p, s.recv, s.fn)
		if fd == nil {
			r.fail("anchor not found: %s.(%s).%s", s.pkg, s.recv, s.fn)
			continue
		}
		var param types.Object
		for _, f := range fd.Type.Params.List {
			for _, nm := range f.Names {
				if nm.Name == s.param {
					param = p.TypesInfo.Defs[nm]
				}
			}
		}
		key := funcKey(p, fd) + "#copies-array"
		if param == nil {
			r.fail("%s has no parameter %s", funcKey(p, fd), s.param)
			continue
		}
		if clonesValue(p, fd, param) {
			if pos, what := c06EarlyStore(p, fd, param, isArr, copySource); pos.IsValid() {
				r.bad(key, pos, "on this path the value is stored ("+what+") before the copy of an *ArrayValue has been made (a fast path in front of the copying code): the container and the source share one array object")
			} else {
				r.ok(key, fd.Pos(), "an *ArrayValue placed into this container is copied first, on every path that stores it in this function")
			}
		} else {
			r.bad(key, fd.Pos(), "stores the value it is given without copying an *ArrayValue: the container and the source keep sharing one array object, so append/unset/sort through one name shows through the other")
		}
	}
	// a value read out of one variable slot reaches another frame's slot through a copying sink, never
	// wrapped as it is into a fresh cell (NewZVal(v) / NewNamedZVal(name, v) handed to the frame): the
	// closure capture `use ($cfg)` and similar frame-to-frame copies are assignments
	if np := r.pkg("node"); np != nil {
		c06SlotToSlot(r, np)
	}
	// array literal: every element obtained from a child evaluation is copied before it is stored
	if np := r.pkg("node"); np != nil {
		info := np.TypesInfo
		if fd := findFunc(np, "Array", "GetValue"); fd == nil {
			r.fail("anchor not found: node.(Array).GetValue")
		} else {
			// variables assigned from child GetValue and later handed to append/setArrayLiteralEntry
			elems := map[types.Object]token.Pos{}
			cloned := map[types.Object]bool{}
			ast.Inspect(fd.Body, func(n ast.Node) bool {
				switch x := n.(type) {
				case *ast.AssignStmt:
					if len(x.Rhs) == 1 {
						if c, ok := ast.Unparen(x.Rhs[0]).(*ast.CallExpr); ok {
							if copySource(info, c) != nil {
								if id, ok := x.Lhs[0].(*ast.Ident); ok {
									cloned[info.Uses[id]] = true
								}
							}
						}
					}
				case *ast.CallExpr:
					name := ""
					if id, ok := ast.Unparen(x.Fun).(*ast.Ident); ok {
						name = id.Name
					}
					if name == "append" || name == "setArrayLiteralEntry" {
						first := 1
						if name == "setArrayLiteralEntry" {
							first = 2 // (array, key, value)
						}
						for _, a := range x.Args[first:] {
							ast.Inspect(a, func(m ast.Node) bool {
								if id, ok := m.(*ast.Ident); ok {
									if v, ok := info.Uses[id].(*types.Var); ok && isNamed(v.Type(), modPath+"/data", "GetValue") {
										elems[v] = x.Pos()
									}
								}
								return true
							})
						}
					}
				}
				return true
			})
			if len(elems) == 0 {
				r.fail("node.(Array).GetValue: no element store found")
			}
			names := []types.Object{}
			for o := range elems {
				names = append(names, o)
			}
			sort.Slice(names, func(i, j int) bool { return elems[names[i]] < elems[names[j]] })
			for _, o := range names {
				key := funcKey(np, fd) + "#copies-element:" + o.Name()
				if cloned[o] {
					r.ok(key, elems[o], "an array used as an element of a literal is copied first")
				} else {
					r.bad(key, elems[o], "the literal stores the evaluated element "+o.Name()+" as is: `$c = [$a]` then shares $a's array object")
				}
			}
		}
		// clone: properties are copied through SetProperty (a copying sink)
		if fd := findFunc(np, "CloneExpression", "GetValue"); fd == nil {
			r.fail("anchor not found: node.(CloneExpression).GetValue")
		} else {
			via := false
			var scan func(body ast.Node, d int)
			scan = func(body ast.Node, d int) {
				ast.Inspect(body, func(n ast.Node) bool {
					if c, ok := n.(*ast.CallExpr); ok {
						if f, ok := calleeOf(info, c).(*types.Func); ok {
							if f.Name() == "SetProperty" {
								via = true
							} else if f.Pkg() == np.Types && d < 2 {
								if hd := declOf(np, f); hd != nil && hd.Body != nil && hd != fd {
									scan(hd.Body, d+1)
								}
							}
						}
					}
					return true
				})
			}
			scan(fd.Body, 0)
			key := funcKey(np, fd) + "#properties-through-sink"
			if via {
				r.ok(key, fd.Pos(), "clone copies every own property through SetProperty, which copies array values")
			} else {
				r.bad(key, fd.Pos(), "clone does not copy the properties through SetProperty: array-valued properties of the clone share the original's array object")
			}
		}
	}
}

// c06IsCopierCall is set by c06Run: the call copies an array (role-based, see isCopier).
var c06IsCopierCall func(info *types.Info, c *ast.CallExpr) bool

// freshValue: e is a value that cannot be an array shared with another holder: built here
// (constructor New*/Clone*/make, &T{…}), a scalar by static type, or a local every assignment of
// which is such an expression.
func freshValue(info *types.Info, fd *ast.FuncDecl, e ast.Expr, cell string, depth int) bool {
	if depth > 4 {
		return false
	}
	e = ast.Unparen(e)
	if ta, ok := e.(*ast.TypeAssertExpr); ok {
		return freshValue(info, fd, ta.X, cell, depth+1)
	}
	// the value already held by this very slot
	if se, ok := e.(*ast.SelectorExpr); ok && se.Sel.Name == "Value" && exprStr(se.X) == cell {
		return true
	}
	if t := info.TypeOf(e); t != nil {
		if p, ok := t.(*types.Pointer); ok {
			if n := namedOf(p.Elem()); n != nil {
				switch n.Obj().Name() {
				case "IntValue", "FloatValue", "BoolValue", "NullValue", "StringValue":
					return true
				}
			}
		}
	}
	switch x := e.(type) {
	case *ast.UnaryExpr:
		if _, ok := x.X.(*ast.CompositeLit); ok && x.Op == token.AND {
			return true
		}
	case *ast.CallExpr:
		name := ""
		switch f := ast.Unparen(x.Fun).(type) {
		case *ast.Ident:
			name = f.Name
		case *ast.SelectorExpr:
			name = f.Sel.Name
		}
		if strings.HasPrefix(name, "New") || strings.HasPrefix(name, "Clone") || strings.HasPrefix(name, "new") || strings.HasPrefix(name, "build") || strings.HasPrefix(name, "make") {
			return true
		}
		if c06IsCopierCall != nil && c06IsCopierCall(info, x) {
			return true
		}
	case *ast.Ident:
		o := info.Uses[x]
		if o == nil {
			return false
		}
		n, all := 0, true
		ast.Inspect(fd.Body, func(m ast.Node) bool {
			as, ok := m.(*ast.AssignStmt)
			if !ok {
				return true
			}
			for i, l := range as.Lhs {
				id, ok := l.(*ast.Ident)
				if !ok {
					continue
				}
				if info.Defs[id] != o && info.Uses[id] != o {
					continue
				}
				n++
				switch {
				case len(as.Rhs) == len(as.Lhs):
					if !freshValue(info, fd, as.Rhs[i], cell, depth+1) {
						all = false
					}
				case len(as.Rhs) == 1 && i == 0:
					// v, ok := x.(T)
					if !freshValue(info, fd, as.Rhs[0], cell, depth+1) {
						all = false
					}
				default:
					all = false
				}
			}
			return true
		})
		return n > 0 && all
	}
	return false
}

// c06RefAtom: e (being true when truth) implies X.RefSlotCount > 0; returns the text of X.
func c06RefAtom(info *types.Info, e ast.Expr, truth bool, preds map[*types.Func]int) (string, bool) {
	switch x := ast.Unparen(e).(type) {
	case *ast.BinaryExpr:
		se, ok := ast.Unparen(x.X).(*ast.SelectorExpr)
		if !ok || se.Sel.Name != "RefSlotCount" {
			return "", false
		}
		y := exprStr(x.Y)
		pos := (x.Op == token.GTR && y == "0") || (x.Op == token.NEQ && y == "0") || (x.Op == token.GEQ && y == "1")
		neg := (x.Op == token.EQL && y == "0") || (x.Op == token.LEQ && y == "0") || (x.Op == token.LSS && y == "1")
		if (pos && truth) || (neg && !truth) {
			return exprStr(se.X), true
		}
	case *ast.CallExpr:
		if !truth {
			return "", false
		}
		cal := calleeFunc(info, x)
		if cal == nil {
			return "", false
		}
		idx, ok := preds[cal]
		if !ok {
			return "", false
		}
		if idx < 0 {
			if se, ok := ast.Unparen(x.Fun).(*ast.SelectorExpr); ok {
				return exprStr(se.X), true
			}
		} else if idx < len(x.Args) {
			return exprStr(x.Args[idx]), true
		}
	}
	return "", false
}

// c06RefPredicates: functions `return <cond>` whose result being true implies RefSlotCount > 0 of the
// receiver (-1) or of a parameter (its index).
func c06RefPredicates(pkgs []*packages.Package) map[*types.Func]int {
	out := map[*types.Func]int{}
	for _, p := range pkgs {
		info := p.TypesInfo
		for _, fd := range funcDecls(p) {
			if fd.Body == nil || len(fd.Body.List) != 1 || fd.Type.Results == nil || len(fd.Type.Results.List) != 1 {
				continue
			}
			ret, ok := fd.Body.List[0].(*ast.ReturnStmt)
			if !ok || len(ret.Results) != 1 {
				continue
			}
			if b, ok := info.TypeOf(ret.Results[0]).Underlying().(*types.Basic); !ok || b.Info()&types.IsBoolean == 0 {
				continue
			}
			var implied []string
			var walk func(e ast.Expr)
			walk = func(e ast.Expr) {
				if be, ok := ast.Unparen(e).(*ast.BinaryExpr); ok && be.Op == token.LAND {
					walk(be.X)
					walk(be.Y)
					return
				}
				if x, ok := c06RefAtom(info, e, true, nil); ok {
					implied = append(implied, x)
				}
			}
			walk(ret.Results[0])
			fn, _ := info.Defs[fd.Name].(*types.Func)
			if fn == nil {
				continue
			}
			for _, x := range implied {
				if fd.Recv != nil && len(fd.Recv.List) == 1 && len(fd.Recv.List[0].Names) == 1 && fd.Recv.List[0].Names[0].Name == x {
					out[fn] = -1
				}
				i := 0
				for _, f := range fd.Type.Params.List {
					for _, nm := range f.Names {
						if nm.Name == x {
							out[fn] = i
						}
						i++
					}
				}
			}
		}
	}
	return out
}

type c06Guards map[string]bool

// c06GuardedWrites: for every assignment to X.Value in fd, whether X.RefSlotCount > 0 is known on
// every path reaching it.
func c06GuardedWrites(info *types.Info, fd *ast.FuncDecl, preds map[*types.Func]int) map[token.Pos]bool {
	out := map[token.Pos]bool{}
	seen := map[token.Pos]bool{}
	h := &Hooks{Info: info}
	h.Copy = func(s State) State {
		c := c06Guards{}
		for k := range s.(c06Guards) {
			c[k] = true
		}
		return c
	}
	h.Join = func(a, b State) State {
		c := c06Guards{}
		for k := range a.(c06Guards) {
			if b.(c06Guards)[k] {
				c[k] = true
			}
		}
		return c
	}
	h.Equal = func(a, b State) bool {
		x, y := a.(c06Guards), b.(c06Guards)
		if len(x) != len(y) {
			return false
		}
		for k := range x {
			if !y[k] {
				return false
			}
		}
		return true
	}
	h.Cond = func(e ast.Expr, truth bool, st State) State {
		if x, ok := c06RefAtom(info, e, truth, preds); ok {
			st.(c06Guards)[x] = true
		}
		return st
	}
	kill := func(g c06Guards, name string) {
		for k := range g {
			if k == name || strings.HasPrefix(k, name+".") || strings.HasPrefix(k, name+"[") {
				delete(g, k)
			}
		}
	}
	h.Stmt = func(stm ast.Stmt, st State) State {
		g := st.(c06Guards)
		as, ok := stm.(*ast.AssignStmt)
		if !ok {
			return st
		}
		for _, l := range as.Lhs {
			if se, ok := ast.Unparen(l).(*ast.SelectorExpr); ok && (se.Sel.Name == "Value" || se.Sel.Name == "Name") {
				v := g[exprStr(se.X)]
				if seen[as.Pos()] {
					out[as.Pos()] = out[as.Pos()] && v
				} else {
					seen[as.Pos()] = true
					out[as.Pos()] = v
				}
				continue
			}
			kill(g, exprStr(l))
		}
		return st
	}
	WalkFunc(h, fd.Body, c06Guards{})
	return out
}

// c06ResultUsed: the call's result is not discarded (it is assigned, passed on or returned).
func c06ResultUsed(fd *ast.FuncDecl, call *ast.CallExpr) bool {
	used := true
	ast.Inspect(fd.Body, func(n ast.Node) bool {
		if es, ok := n.(*ast.ExprStmt); ok && ast.Unparen(es.X) == ast.Expr(call) {
			used = false
		}
		if as, ok := n.(*ast.AssignStmt); ok && len(as.Rhs) == 1 && ast.Unparen(as.Rhs[0]) == ast.Expr(call) {
			all := true
			for _, l := range as.Lhs {
				if id, ok := l.(*ast.Ident); !ok || id.Name != "_" {
					all = false
				}
			}
			if all {
				used = false
			}
		}
		return true
	})
	return used
}

// c06EarlyStore: a path on which the sink stores its value parameter before the copy. The copy is made
// when the parameter is reassigned from a copier (value = CloneArrayValue(av) / value = helper(value));
// on the branches where a type test shows that the value is not an *ArrayValue nothing has to be copied.
// Stores: a field/element assignment whose right side is the parameter, a cell constructor given the
// parameter, a call on storage rooted at the receiver that receives the parameter. Handing the value on
// to another sink (an interface method on something else) is not a store of this function.
func c06EarlyStore(p *packages.Package, fd *ast.FuncDecl, param types.Object, isArr func(types.Type) bool,
	copySource func(*types.Info, *ast.CallExpr) ast.Expr) (token.Pos, string) {
	info := p.TypesInfo
	var recv types.Object
	if fd.Recv != nil && len(fd.Recv.List) == 1 && len(fd.Recv.List[0].Names) == 1 {
		recv = info.Defs[fd.Recv.List[0].Names[0]]
	}
	type st struct{ safe bool }
	okVar := map[types.Object]bool{} // ok of `x, ok := value.(*ArrayValue)`
	var bad token.Pos
	what := ""
	isParam := func(e ast.Expr) bool {
		id, ok := ast.Unparen(e).(*ast.Ident)
		return ok && info.Uses[id] == param
	}
	rootedAtRecv := func(e ast.Expr) bool {
		for {
			switch x := ast.Unparen(e).(type) {
			case *ast.SelectorExpr:
				e = x.X
			case *ast.IndexExpr:
				e = x.X
			case *ast.Ident:
				return recv != nil && info.Uses[x] == recv
			default:
				return false
			}
		}
	}
	flag := func(s *st, pos token.Pos, w string) {
		if !s.safe && !bad.IsValid() {
			bad, what = pos, w
		}
	}
	// default clauses of type switches that have an arm for the array type
	armsNameArray := map[*ast.CaseClause]bool{}
	ast.Inspect(fd.Body, func(n ast.Node) bool {
		ts, ok := n.(*ast.TypeSwitchStmt)
		if !ok {
			return true
		}
		names := false
		for _, c := range ts.Body.List {
			for _, t := range c.(*ast.CaseClause).List {
				if tv, ok := info.Types[t]; ok && tv.IsType() && isArr(tv.Type) {
					names = true
				}
			}
		}
		if names {
			for _, c := range ts.Body.List {
				if cc := c.(*ast.CaseClause); cc.List == nil {
					armsNameArray[cc] = true
				}
			}
		}
		return true
	})
	// the variable a type switch binds in its array arm (switch v := value.(type) { case *ArrayValue: … v … })
	// is the value itself, as an array
	arrayBound := map[types.Object]bool{}
	ast.Inspect(fd.Body, func(n ast.Node) bool {
		ts, ok := n.(*ast.TypeSwitchStmt)
		if !ok {
			return true
		}
		as, ok := ts.Assign.(*ast.AssignStmt)
		if !ok || len(as.Rhs) != 1 {
			return true
		}
		ta, ok := ast.Unparen(as.Rhs[0]).(*ast.TypeAssertExpr)
		if !ok || !isParam(ta.X) {
			return true
		}
		for _, c := range ts.Body.List {
			cc := c.(*ast.CaseClause)
			for _, t := range cc.List {
				if tv, ok := info.Types[t]; ok && tv.IsType() && isArr(tv.Type) {
					if o := info.Implicits[cc]; o != nil {
						arrayBound[o] = true
					}
				}
			}
		}
		return true
	})
	isArrayBound := func(e ast.Expr) bool {
		id, ok := ast.Unparen(e).(*ast.Ident)
		return ok && arrayBound[info.Uses[id]]
	}
	h := &Hooks{Info: info}
	h.Copy = func(s State) State { c := *s.(*st); return &c }
	h.Join = func(a, b State) State { return &st{a.(*st).safe && b.(*st).safe} }
	h.Equal = func(a, b State) bool { return *a.(*st) == *b.(*st) }
	h.Cond = func(e ast.Expr, truth bool, s State) State {
		if id, ok := ast.Unparen(e).(*ast.Ident); ok && okVar[info.Uses[id]] && !truth {
			s.(*st).safe = true // not an array: nothing to copy
		}
		return s
	}
	h.TypeCase = func(x ast.Expr, bind *ast.Ident, cc *ast.CaseClause, s State) State {
		if x == nil || !isParam(x) {
			return s
		}
		arrayArm := false
		for _, t := range cc.List {
			if tv, ok := info.Types[t]; ok && tv.IsType() && isArr(tv.Type) {
				arrayArm = true
			}
		}
		if !arrayArm {
			// an arm for another kind of value; the default arm only when some other arm takes the arrays
			if cc.List != nil || armsNameArray[cc] {
				s.(*st).safe = true
			}
		}
		return s
	}
	h.TypeMiss = func(x ast.Expr, sw *ast.TypeSwitchStmt, s State) State {
		if x == nil || !isParam(x) {
			return s
		}
		// no arm matched: if some arm names the array type, the value is not an array here
		for _, c := range sw.Body.List {
			for _, t := range c.(*ast.CaseClause).List {
				if tv, ok := info.Types[t]; ok && tv.IsType() && isArr(tv.Type) {
					s.(*st).safe = true
				}
			}
		}
		return s
	}
	h.Stmt = func(stm ast.Stmt, s State) State {
		x := s.(*st)
		as, ok := stm.(*ast.AssignStmt)
		if !ok {
			return s
		}
		// x, ok := value.(*ArrayValue)
		if len(as.Lhs) == 2 && len(as.Rhs) == 1 {
			if ta, ok := ast.Unparen(as.Rhs[0]).(*ast.TypeAssertExpr); ok && ta.Type != nil && isParam(ta.X) && isArr(info.TypeOf(ta.Type)) {
				if id, ok := as.Lhs[1].(*ast.Ident); ok {
					if o := info.Defs[id]; o != nil {
						okVar[o] = true
					} else if o := info.Uses[id]; o != nil {
						okVar[o] = true
					}
				}
			}
		}
		for i, l := range as.Lhs {
			if i >= len(as.Rhs) {
				break
			}
			if isParam(l) {
				// value = copier(...)
				if c, ok := ast.Unparen(as.Rhs[i]).(*ast.CallExpr); ok {
					if copySource(info, c) != nil {
						x.safe = true
						continue
					}
					// a copying helper: value = helper(value)
					for _, a := range c.Args {
						if isParam(a) {
							x.safe = true
						}
					}
				}
				continue
			}
			if _, plain := ast.Unparen(l).(*ast.Ident); !plain && isParam(as.Rhs[i]) {
				flag(x, as.Pos(), "assigned to "+exprStr(l))
			}
			if _, plain := ast.Unparen(l).(*ast.Ident); !plain && isArrayBound(as.Rhs[i]) && !bad.IsValid() {
				// the array itself stored as it is, in the very arm that is there to copy it
				bad, what = as.Pos(), "the array bound by the type switch is assigned to "+exprStr(l)+" as it is"
			}
		}
		return s
	}
	h.Visit = func(e ast.Expr, s State) State {
		c, ok := e.(*ast.CallExpr)
		if !ok {
			return s
		}
		x := s.(*st)
		hasParam := false
		for _, a := range c.Args {
			if isParam(a) {
				hasParam = true
			}
		}
		if !hasParam || copySource(info, c) != nil {
			return s
		}
		if f, ok := calleeOf(info, c).(*types.Func); ok && f.Pkg() != nil && f.Pkg().Path() == modPath+"/data" && (f.Name() == "NewZVal" || f.Name() == "NewNamedZVal") {
			flag(x, c.Pos(), "wrapped into a new cell by "+f.Name())
			return s
		}
		if se, ok := ast.Unparen(c.Fun).(*ast.SelectorExpr); ok {
			if inner, ok := ast.Unparen(se.X).(*ast.SelectorExpr); ok && rootedAtRecv(inner) {
				// c.property.Set(name, value): storage held by the receiver
				if _, isField := info.Selections[inner]; isField {
					flag(x, c.Pos(), "handed to "+exprStr(c.Fun))
				}
			}
		}
		return s
	}
	WalkFunc(h, fd.Body, &st{})
	return bad, what
}

// c06FreshArrayCell: e is X.List[i] where X is a local that holds an array constructed in this function
// (data.NewArrayValue(...) or a copier): its cells are not shared with anybody yet.
func c06FreshArrayCell(info *types.Info, fd *ast.FuncDecl, e ast.Expr) bool {
	ix, ok := ast.Unparen(e).(*ast.IndexExpr)
	if !ok {
		return false
	}
	se, ok := ast.Unparen(ix.X).(*ast.SelectorExpr)
	if !ok || se.Sel.Name != "List" {
		return false
	}
	base := ast.Unparen(se.X)
	for {
		if ta, ok := base.(*ast.TypeAssertExpr); ok {
			base = ast.Unparen(ta.X)
			continue
		}
		break
	}
	id, ok := base.(*ast.Ident)
	if !ok {
		return false
	}
	obj := info.Uses[id]
	n, fresh := 0, true
	ast.Inspect(fd.Body, func(m ast.Node) bool {
		as, ok := m.(*ast.AssignStmt)
		if !ok {
			return true
		}
		for i, l := range as.Lhs {
			lid, ok := l.(*ast.Ident)
			if !ok || (info.Defs[lid] != obj && info.Uses[lid] != obj) {
				continue
			}
			n++
			if len(as.Rhs) != len(as.Lhs) {
				fresh = false
				continue
			}
			rhs := ast.Unparen(as.Rhs[i])
			for {
				if ta, ok := rhs.(*ast.TypeAssertExpr); ok {
					rhs = ast.Unparen(ta.X)
					continue
				}
				break
			}
			c, ok := rhs.(*ast.CallExpr)
			if !ok {
				fresh = false
				continue
			}
			f, _ := calleeOf(info, c).(*types.Func)
			if f == nil || !(strings.HasPrefix(f.Name(), "NewArrayValue") || (c06IsCopierCall != nil && c06IsCopierCall(info, c))) {
				fresh = false
			}
		}
		return true
	})
	return n > 0 && fresh
}

// c06SlotToSlot: see the call site. Sources are the results of Context.GetIndexValue / GetVariableValue;
// the judged uses are (a) an argument of a cell constructor of package data (a function that returns
// *ZVal and takes a Value) — a bypass — and (b) an argument of a Context method that stores a value
// (Set…Value) — the copying route.
func c06SlotToSlot(r *Run, np *packages.Package) {
	info := np.TypesInfo
	dataPath := modPath + "/data"
	isCtx := func(t types.Type) bool { return t != nil && isNamed(t, dataPath, "Context") }
	for _, fd := range funcDecls(np) {
		if fd.Body == nil {
			continue
		}
		src := map[types.Object]bool{}
		ast.Inspect(fd.Body, func(n ast.Node) bool {
			as, ok := n.(*ast.AssignStmt)
			if !ok || len(as.Rhs) != 1 {
				return true
			}
			c, ok := ast.Unparen(as.Rhs[0]).(*ast.CallExpr)
			if !ok {
				return true
			}
			se, ok := ast.Unparen(c.Fun).(*ast.SelectorExpr)
			if !ok || (se.Sel.Name != "GetIndexValue" && se.Sel.Name != "GetVariableValue") || !isCtx(info.TypeOf(se.X)) {
				return true
			}
			if id, ok := as.Lhs[0].(*ast.Ident); ok && id.Name != "_" {
				o := info.Defs[id]
				if o == nil {
					o = info.Uses[id]
				}
				if o != nil {
					src[o] = true
				}
			}
			return true
		})
		if len(src) == 0 {
			continue
		}
		fk := funcKey(np, fd)
		ast.Inspect(fd.Body, func(n ast.Node) bool {
			c, ok := n.(*ast.CallExpr)
			if !ok {
				return true
			}
			uses := false
			for _, a := range c.Args {
				if id, ok := ast.Unparen(a).(*ast.Ident); ok && src[info.Uses[id]] {
					uses = true
				}
			}
			if !uses {
				return true
			}
			cal := calleeFunc(info, c)
			if cal == nil {
				return true
			}
			sig := cal.Type().(*types.Signature)
			switch {
			case cal.Pkg() != nil && cal.Pkg().Path() == dataPath && sig.Recv() == nil && sig.Results().Len() == 1 && func() bool {
				pt, ok := sig.Results().At(0).Type().(*types.Pointer)
				return ok && isNamed(pt.Elem(), dataPath, "ZVal")
			}():
				r.bad(fk+"#slot-to-slot", c.Pos(), "a value read from a variable slot is wrapped into a fresh cell by "+cal.Name()+" instead of being stored through the copying SetVariableValue: an array captured or passed this way is one object in both frames, so a write in one frame shows through the other")
			case sig.Recv() != nil && strings.HasPrefix(cal.Name(), "Set") && strings.HasSuffix(cal.Name(), "Value"):
				if se, ok := ast.Unparen(c.Fun).(*ast.SelectorExpr); ok && isCtx(info.TypeOf(se.X)) {
					r.ok(fk+"#slot-to-slot", c.Pos(), "a value read from a variable slot is stored into the other frame through "+cal.Name()+" (the copying sink)")
				}
			}
			return true
		})
	}
}

// c06OneValueManySlots (C06-SINK, clause #one-value-many-slots): a loop that fills several slots of an
// array (SetSlotValue, a fresh ZVal, SetProperty) stores a value that can be an array only if that value is
// made inside the loop — a loop-invariant value (computed or copied once in front of the loop) ends up in
// every slot as the same *ArrayValue, and a write through one element shows in the others.
func c06OneValueManySlots(r *Run, pkgs []*packages.Package) {
	for _, p := range pkgs {
		rel := strings.TrimPrefix(p.PkgPath, modPath+"/")
		if rel != "data" && rel != "node" && !strings.HasPrefix(rel, "std/php") {
			continue
		}
		info := p.TypesInfo
		canHoldArray := func(t types.Type) bool {
			if t == nil {
				return false
			}
			if isNamed(t, modPath+"/data", "Value") || isNamed(t, modPath+"/data", "GetValue") {
				return true
			}
			if pt, ok := t.(*types.Pointer); ok {
				return isNamed(pt.Elem(), modPath+"/data", "ArrayValue") || isNamed(pt.Elem(), modPath+"/data", "ObjectValue")
			}
			return false
		}
		for _, fd := range funcDecls(p) {
			if fd.Body == nil {
				continue
			}
			fk := funcKey(p, fd)
			var loops []ast.Stmt
			judge := func(pos token.Pos, what string, val ast.Expr, loop ast.Stmt, call *ast.CallExpr) {
				id, ok := ast.Unparen(val).(*ast.Ident)
				if !ok {
					return
				}
				if call != nil && c06LeavesLoopAfter(loop, call) {
					return // a search loop: the store is followed by return/break, it runs once
				}
				v, ok := info.Uses[id].(*types.Var)
				if !ok || !canHoldArray(v.Type()) {
					return
				}
				if v.Pos() >= loop.Pos() && v.Pos() < loop.End() {
					return // declared inside the loop (includes the loop's own key/value variables)
				}
				assignedInside := false
				ast.Inspect(loop, func(k ast.Node) bool {
					if as, ok := k.(*ast.AssignStmt); ok {
						for _, l := range as.Lhs {
							if lid, ok := l.(*ast.Ident); ok && info.ObjectOf(lid) == v {
								assignedInside = true
							}
						}
					}
					return true
				})
				if assignedInside || c06ScalarDefinition(info, fd, v) {
					return
				}
				r.bad(fk+"#one-value-many-slots:"+id.Name, pos, fmt.Sprintf("%s stores the loop-invariant value %s into one slot per iteration: when it is an array every slot holds the same *ArrayValue, and a write through one element shows in the others (copy per slot, inside the loop)", what, id.Name))
			}
			var walk func(n ast.Node)
			walk = func(n ast.Node) {
				ast.Inspect(n, func(m ast.Node) bool {
					if m == nil || m == n {
						return true
					}
					switch x := m.(type) {
					case *ast.FuncLit:
						return false
					case *ast.ForStmt:
						loops = append(loops, x)
						walk(x.Body)
						loops = loops[:len(loops)-1]
						return false
					case *ast.RangeStmt:
						loops = append(loops, x)
						walk(x.Body)
						loops = loops[:len(loops)-1]
						return false
					case *ast.CompositeLit:
						// &data.ZVal{Name: k, Value: v}
						if len(loops) == 0 || !isNamed(info.TypeOf(x), modPath+"/data", "ZVal") {
							return true
						}
						for _, el := range x.Elts {
							kv, ok := el.(*ast.KeyValueExpr)
							if !ok {
								continue
							}
							if kid, ok := kv.Key.(*ast.Ident); ok && kid.Name == "Value" {
								judge(x.Pos(), "&data.ZVal{…}", kv.Value, loops[len(loops)-1], nil)
							}
						}
					case *ast.CallExpr:
						if len(loops) == 0 {
							return true
						}
						var val ast.Expr
						cal, _ := calleeOf(info, x).(*types.Func)
						calName := ""
						if cal != nil && cal.Pkg() != nil && cal.Pkg().Path() == modPath+"/data" {
							calName = cal.Name()
						}
						switch calName {
						case "SetSlotValue", "SetProperty", "SetIntKey":
							if len(x.Args) == 2 {
								val = x.Args[1]
							}
						case "NewZVal":
							if len(x.Args) == 1 {
								val = x.Args[0]
							}
						case "NewNamedZVal":
							if len(x.Args) == 2 {
								val = x.Args[1]
							}
						}
						// values = append(values, v) for a []data.Value that becomes an array's elements
						if bid, isB := ast.Unparen(x.Fun).(*ast.Ident); isB && bid.Name == "append" && len(x.Args) == 2 && !x.Ellipsis.IsValid() {
							if sl, ok := info.TypeOf(x.Args[0]).Underlying().(*types.Slice); ok && isNamed(sl.Elem(), modPath+"/data", "Value") {
								val = x.Args[1]
							}
						}
						if val != nil {
							judge(x.Pos(), exprStr(x.Fun), val, loops[len(loops)-1], x)
						}
					}
					return true
				})
			}
			walk(fd.Body)
		}
	}
}

// c06ScalarDefinition: every assignment of v in fd gives it a scalar script value (a data.New<Scalar>Value call,
// a constant) — then sharing it between slots is harmless.
func c06ScalarDefinition(info *types.Info, fd *ast.FuncDecl, v *types.Var) bool {
	defs, scalar := 0, 0
	ast.Inspect(fd.Body, func(n ast.Node) bool {
		as, ok := n.(*ast.AssignStmt)
		if !ok || len(as.Lhs) != len(as.Rhs) {
			return true
		}
		for i, l := range as.Lhs {
			if id, ok := l.(*ast.Ident); ok && info.ObjectOf(id) == v {
				defs++
				if c, ok := ast.Unparen(as.Rhs[i]).(*ast.CallExpr); ok {
					if cal, ok := calleeOf(info, c).(*types.Func); ok {
						switch cal.Name() {
						case "NewIntValue", "NewStringValue", "NewBoolValue", "NewNullValue", "NewFloatValue":
							scalar++
						}
					}
				}
			}
		}
		return true
	})
	return defs > 0 && defs == scalar
}

// c06LeavesLoopAfter: in the statement list that holds the call, a later statement is an unconditional
// return or break — the loop body runs the store at most once.
func c06LeavesLoopAfter(loop ast.Stmt, call *ast.CallExpr) bool {
	leaves := false
	ast.Inspect(loop, func(n ast.Node) bool {
		var list []ast.Stmt
		switch x := n.(type) {
		case *ast.BlockStmt:
			list = x.List
		case *ast.CaseClause:
			list = x.Body
		default:
			return true
		}
		for i, st := range list {
			if call.Pos() >= st.Pos() && call.End() <= st.End() {
				if _, nested := st.(*ast.BlockStmt); nested {
					continue
				}
				switch st.(type) {
				case *ast.IfStmt, *ast.ForStmt, *ast.RangeStmt, *ast.SwitchStmt, *ast.TypeSwitchStmt:
					continue // the call sits deeper: judged in its own list
				}
				for _, later := range list[i+1:] {
					switch y := later.(type) {
					case *ast.ReturnStmt:
						leaves = true
					case *ast.BranchStmt:
						if y.Tok == token.BREAK || y.Tok == token.GOTO {
							leaves = true
						}
					}
				}
			}
		}
		return true
	})
	return leaves
}

// c06CopySkipped (C06-SINK, clause #copy-skipped): where the copy of an array before a store is made
// conditional on a predicate over the *producing node* (`if av, ok := v.(*ArrayValue); ok && !fresh(node) {
// v = Clone(av) }`), the predicate may answer true only for node types whose evaluation builds the array anew
// every time: each type it accepts has a GetValue whose array results are allocated in that method. A call
// node or a variable node hands back an array somebody else still holds.
func c06CopySkipped(r *Run, np *packages.Package) {
	info := np.TypesInfo
	declByObj := map[types.Object]*ast.FuncDecl{}
	for _, fd := range funcDecls(np) {
		declByObj[info.Defs[fd.Name]] = fd
	}
	isArrPtr := func(t types.Type) bool {
		pt, ok := t.(*types.Pointer)
		return ok && isNamed(pt.Elem(), modPath+"/data", "ArrayValue")
	}
	// does every array-typed result of (*T).GetValue come from an allocation in that method?
	buildsFresh := func(t types.Type) (bool, string) {
		nt := namedOf(t)
		if pt, ok := t.(*types.Pointer); ok {
			nt = namedOf(pt.Elem())
		}
		if nt == nil {
			return false, "not a node type"
		}
		gv := findFunc(np, nt.Obj().Name(), "GetValue")
		if gv == nil || gv.Body == nil {
			return false, "no GetValue method found"
		}
		fresh := map[types.Object]bool{}
		ast.Inspect(gv.Body, func(n ast.Node) bool {
			if as, ok := n.(*ast.AssignStmt); ok && len(as.Lhs) == len(as.Rhs) {
				for i, rh := range as.Rhs {
					isNew := false
					switch x := ast.Unparen(rh).(type) {
					case *ast.UnaryExpr:
						if cl, ok := x.X.(*ast.CompositeLit); ok && x.Op == token.AND && isNamed(info.TypeOf(cl), modPath+"/data", "ArrayValue") {
							isNew = true
						}
					case *ast.CallExpr:
						if cal, ok := calleeOf(info, x).(*types.Func); ok && cal.Name() == "NewArrayValue" {
							isNew = true
						}
						if ta, ok := ast.Unparen(x.Fun).(*ast.SelectorExpr); ok && ta.Sel.Name == "NewArrayValue" {
							isNew = true
						}
					case *ast.TypeAssertExpr:
						if c, ok := ast.Unparen(x.X).(*ast.CallExpr); ok {
							if cal, ok := calleeOf(info, c).(*types.Func); ok && cal.Name() == "NewArrayValue" {
								isNew = true
							}
						}
					}
					if id, ok := as.Lhs[i].(*ast.Ident); ok && isNew {
						fresh[info.ObjectOf(id)] = true
					}
				}
			}
			return true
		})
		ok, why := true, ""
		nArr := 0
		ast.Inspect(gv.Body, func(n ast.Node) bool {
			if _, isLit := n.(*ast.FuncLit); isLit {
				return false
			}
			rs, isRet := n.(*ast.ReturnStmt)
			if !isRet || len(rs.Results) == 0 {
				return true
			}
			res := ast.Unparen(rs.Results[0])
			if exprStr(res) == "nil" {
				return true
			}
			t := info.TypeOf(res)
			if id, isId := res.(*ast.Ident); isId && fresh[info.Uses[id]] {
				nArr++
				return true
			}
			if c, isCall := res.(*ast.CallExpr); isCall {
				if cal, ok2 := calleeOf(info, c).(*types.Func); ok2 && cal.Name() == "NewArrayValue" {
					nArr++
					return true
				}
			}
			if t != nil && (isArrPtr(t) || isNamed(t, modPath+"/data", "GetValue") || isNamed(t, modPath+"/data", "Value")) {
				ok, why = false, "returns "+exprStr(res)+", which is not allocated in the method"
			}
			return true
		})
		if ok && nArr == 0 {
			return false, "builds no array"
		}
		return ok, why
	}
	for _, fd := range funcDecls(np) {
		if fd.Body == nil {
			continue
		}
		fk := funcKey(np, fd)
		ast.Inspect(fd.Body, func(n ast.Node) bool {
			is, ok := n.(*ast.IfStmt)
			if !ok {
				return true
			}
			copies := false
			ast.Inspect(is.Body, func(m ast.Node) bool {
				if c, ok := m.(*ast.CallExpr); ok && c06IsCopierCall != nil && c06IsCopierCall(info, c) {
					copies = true
				}
				return true
			})
			if !copies {
				return true
			}
			// conjuncts of the form !P(x)
			var walk func(e ast.Expr)
			walk = func(e ast.Expr) {
				e = ast.Unparen(e)
				if be, ok := e.(*ast.BinaryExpr); ok && be.Op == token.LAND {
					walk(be.X)
					walk(be.Y)
					return
				}
				u, ok := e.(*ast.UnaryExpr)
				if !ok || u.Op != token.NOT {
					return
				}
				c, ok := ast.Unparen(u.X).(*ast.CallExpr)
				if !ok || len(c.Args) != 1 {
					return
				}
				pd := declByObj[calleeOf(info, c)]
				if pd == nil || pd.Body == nil {
					return
				}
				if !isNamed(info.TypeOf(c.Args[0]), modPath+"/data", "GetValue") {
					return
				}
				key := fk + "#copy-skipped:" + pd.Name.Name
				bad := ""
				nTypes := 0
				ast.Inspect(pd.Body, func(m ast.Node) bool {
					cc, ok := m.(*ast.CaseClause)
					if !ok {
						return true
					}
					returnsTrue := false
					for _, st := range cc.Body {
						if rs, ok := st.(*ast.ReturnStmt); ok && len(rs.Results) == 1 && exprStr(rs.Results[0]) == "true" {
							returnsTrue = true
						}
					}
					if !returnsTrue {
						return true
					}
					for _, te := range cc.List {
						if tv, ok := info.Types[te]; ok && tv.IsType() {
							nTypes++
							if okT, why := buildsFresh(tv.Type); !okT && bad == "" {
								bad = fmt.Sprintf("%s (%s)", types.TypeString(tv.Type, types.RelativeTo(np.Types)), why)
							}
						}
					}
					return true
				})
				switch {
				case bad != "":
					r.bad(key, c.Pos(), fmt.Sprintf("the copy of an array before it is stored is skipped when %s accepts the producing node, and %s accepts %s: the array it evaluates to is still held elsewhere, so the store aliases it", pd.Name.Name, pd.Name.Name, bad))
				case nTypes > 0:
					r.ok(key, c.Pos(), fmt.Sprintf("the copy is skipped only for node types whose evaluation allocates the array it returns (%d type(s) accepted by %s)", nTypes, pd.Name.Name))
				}
			}
			walk(is.Cond)
			return true
		})
	}
}
