package main

import (
	"go/ast"
	"go/token"
	"go/types"
	"sort"
	"strings"

	"golang.org/x/tools/go/packages"
)

func init() {
	for _, e := range [][2]string{
		{"node.setArrayLiteralEntry#cell-write:z", "the array is the literal under construction (NewArrayValue allocated every cell a few lines earlier in Array.GetValue, the only caller)"},
		{"std/php/spl.(SplFixedArrayOffsetSetMethod).Call#cell-write:sfaGetStorage(cv).List[i]", "private storage of an SplFixedArray object; objects are shared by handle and toArray() hands out a copy of the slot list only (cells shared: a later offsetSet shows through an earlier toArray() result — recorded in DESIGN.md as an observation, SPL is outside C06's routes)"},
		{"std/php/spl.(SplFixedArrayOffsetUnsetMethod).Call#cell-write:sfaGetStorage(cv).List[i]", "same storage as SplFixedArray::offsetSet"},
		{"std/php/spl.aoOffsetSet#cell-write:z", "private storage of an ArrayObject; same reasoning as SplFixedArray"},
		{"std/php/spl.(SplDLLOffsetSetMethod).Call#cell-write:arr.List[i]", "private storage of an SplDoublyLinkedList"},
	} {
		assumeSite("C06-CELL", e[0], e[1])
	}
	register(&PropDef{
		ID:          "C06",
		Patterns:    []string{"./data", "./node", "./runtime", "./std/..."},
		Explanation: "Assignment copies an array shallowly: CloneArrayValue copies the slot slice and shares the *ZVal cells. Two disciplines are then necessary for value semantics and both are visible in the code: (CELL) nothing writes the Value of a cell that was taken from an array's slot list unless the write is guarded by RefSlotCount > 0 (an explicit & binding) — stores replace the cell instead; (SINK) every function that places a value into a variable slot, a property, or an array element copies an *ArrayValue first (CloneArrayValue), and clone copies own properties through such a sink. Nested arrays (the inner array object is still shared by a shallow copy), in-place sort/push internals and reference semantics are not decided.",
		Assumptions: []string{
			"a cell is 'from a slot list' when it is X.List[i], a range value over X.List, or the result of FindSlotByIntKey, for X of type *data.ArrayValue; cells obtained from a Context are variable slots",
			"functions that write a cell received as a parameter are summarised and their call sites checked one level up",
		},
		Rules: []RuleDef{
			{Name: "C06-CELL", Floor: 8, Doc: "no unguarded in-place write of a cell taken from an array's slot list", Run: c06Run},
			{Name: "C06-NEST", Floor: 1, Doc: "a store through a nested index path ($b[0][1] = v) detaches the inner array from other copies before writing into it", Run: nop},
			{Name: "C06-SINK", Floor: 3, Doc: "every container store copies an array value first; clone copies properties through such a store", Run: nop},
		},
	})
}

func c06Run(r *Run) {
	dpkg := r.pkg("data")
	if dpkg == nil {
		return
	}
	zval := r.lookupType(dpkg, "ZVal")
	arrT := r.lookupType(dpkg, "ArrayValue")
	if zval == nil || arrT == nil {
		return
	}
	isZ := func(t types.Type) bool {
		p, ok := t.(*types.Pointer)
		return ok && namedOf(p.Elem()) == zval
	}
	isArr := func(t types.Type) bool {
		if p, ok := t.(*types.Pointer); ok {
			t = p.Elem()
		}
		return namedOf(t) == arrT
	}
	pkgs := []*packages.Package{}
	for path, p := range r.ByPath {
		if strings.HasPrefix(path, modPath+"/data") || strings.HasPrefix(path, modPath+"/node") || strings.HasPrefix(path, modPath+"/runtime") || strings.HasPrefix(path, modPath+"/std") {
			pkgs = append(pkgs, p)
		}
	}
	sort.Slice(pkgs, func(i, j int) bool { return pkgs[i].PkgPath < pkgs[j].PkgPath })

	r.curRule = "C06-CELL"
	type origin int
	const (
		oUnknown origin = iota
		oList           // from an array's slot list
		oFresh          // allocated here
		oSlot           // variable slot of a context
		oParam
	)
	// paramWriters: function → indices of *ZVal parameters whose Value it writes unguarded
	type pw struct {
		fn  *types.Func
		idx int
	}
	paramWriters := map[pw]token.Pos{}

	for _, p := range pkgs {
		info := p.TypesInfo
		for _, fd := range funcDecls(p) {
			fk := funcKey(p, fd)
			// local origins
			org := map[types.Object]origin{}
			if fd.Type.Params != nil {
				for _, f := range fd.Type.Params.List {
					for _, nm := range f.Names {
						if o := info.Defs[nm]; o != nil && isZ(o.Type()) {
							org[o] = oParam
						}
					}
				}
			}
			var exprOrigin func(e ast.Expr) origin
			exprOrigin = func(e ast.Expr) origin {
				switch x := ast.Unparen(e).(type) {
				case *ast.Ident:
					if o := info.Uses[x]; o != nil {
						return org[o]
					}
				case *ast.IndexExpr:
					if se, ok := ast.Unparen(x.X).(*ast.SelectorExpr); ok && se.Sel.Name == "List" && isArr(info.TypeOf(se.X)) {
						return oList
					}
				case *ast.CallExpr:
					if cal, ok := calleeOf(info, x).(*types.Func); ok {
						switch cal.Name() {
						case "FindSlotByIntKey":
							return oList
						case "NewZVal", "NewNamedZVal":
							return oFresh
						case "GetIndexZVal", "GetZVal", "GetVariableZVal":
							return oSlot
						}
					}
				case *ast.UnaryExpr:
					if _, ok := x.X.(*ast.CompositeLit); ok && x.Op == token.AND {
						return oFresh
					}
				}
				return oUnknown
			}
			for pass := 0; pass < 2; pass++ {
				ast.Inspect(fd.Body, func(n ast.Node) bool {
					switch x := n.(type) {
					case *ast.AssignStmt:
						if len(x.Rhs) == 1 && len(x.Lhs) >= 1 {
							if id, ok := x.Lhs[0].(*ast.Ident); ok {
								o := info.Defs[id]
								if o == nil {
									o = info.Uses[id]
								}
								if o != nil && isZ(o.Type()) {
									if og := exprOrigin(x.Rhs[0]); og != oUnknown && org[o] != oList {
										org[o] = og
									}
								}
							}
						}
					case *ast.RangeStmt:
						if se, ok := ast.Unparen(x.X).(*ast.SelectorExpr); ok && se.Sel.Name == "List" && isArr(info.TypeOf(se.X)) {
							if id, ok := x.Value.(*ast.Ident); ok {
								if o := info.Defs[id]; o != nil {
									org[o] = oList
								}
							}
						}
					}
					return true
				})
			}
			// guards: positions inside the body of `if X.RefSlotCount > 0`
			type guard struct {
				key      string
				from, to token.Pos
			}
			var guards []guard
			ast.Inspect(fd.Body, func(n ast.Node) bool {
				is, ok := n.(*ast.IfStmt)
				if !ok {
					return true
				}
				ast.Inspect(is.Cond, func(m ast.Node) bool {
					be, ok := m.(*ast.BinaryExpr)
					if !ok {
						return true
					}
					se, ok := ast.Unparen(be.X).(*ast.SelectorExpr)
					if !ok || se.Sel.Name != "RefSlotCount" {
						return true
					}
					if (be.Op == token.GTR && exprStr(be.Y) == "0") || (be.Op == token.NEQ && exprStr(be.Y) == "0") || (be.Op == token.GEQ && exprStr(be.Y) == "1") {
						guards = append(guards, guard{exprStr(se.X), is.Body.Pos(), is.Body.End()})
					}
					return true
				})
				return true
			})
			ast.Inspect(fd.Body, func(n ast.Node) bool {
				as, ok := n.(*ast.AssignStmt)
				if !ok {
					return true
				}
				for _, l := range as.Lhs {
					se, ok := ast.Unparen(l).(*ast.SelectorExpr)
					if !ok || se.Sel.Name != "Value" || !isZ(info.TypeOf(se.X)) {
						continue
					}
					og := exprOrigin(se.X)
					cell := strings.ReplaceAll(exprStr(se.X), " ", "")
					key := fk + "#cell-write:" + cell
					guarded := false
					for _, g := range guards {
						if g.key == exprStr(se.X) && as.Pos() >= g.from && as.End() <= g.to {
							guarded = true
						}
					}
					switch {
					case og == oList && guarded:
						r.ok(key, as.Pos(), "in-place write of a slot-list cell only where RefSlotCount > 0 (explicit reference)")
					case og == oList:
						r.bad(key, as.Pos(), "writes the Value of a cell taken from an array's slot list in place: every copy of the array that shares the cell sees the new value")
					case og == oParam && !guarded:
						if id, ok := ast.Unparen(se.X).(*ast.Ident); ok {
							if f, ok := info.Defs[fd.Name].(*types.Func); ok {
								sig := f.Type().(*types.Signature)
								for i := 0; i < sig.Params().Len(); i++ {
									if sig.Params().At(i) == info.Uses[id] {
										paramWriters[pw{f, i}] = as.Pos()
									}
								}
							}
						}
					case og == oSlot:
						// a store into a variable slot is a sink: the stored value must be fresh, a copy, or scalar
						rhs := as.Rhs[0]
						if len(as.Rhs) == len(as.Lhs) {
							for i := range as.Lhs {
								if as.Lhs[i] == l {
									rhs = as.Rhs[i]
								}
							}
						}
						if freshValue(info, fd, rhs, exprStr(se.X), 0) {
							r.ok(key, as.Pos(), "the value stored into the variable slot is built or copied in this function, or is a scalar")
						} else {
							r.curRule = "C06-SINK"
							r.bad(fk+"#slot-store:"+cell, as.Pos(), "stores "+exprStr(rhs)+" into a variable slot directly: a caller's array placed there is not copied (Context.SetVariableValue, which copies, is bypassed), so the callee's writes show through the caller's variable")
							r.curRule = "C06-CELL"
						}
					case og == oFresh:
						r.ok(key, as.Pos(), "the cell was allocated in this function")
					}
				}
				return true
			})
		}
	}
	// call sites of parameter writers
	for _, p := range pkgs {
		info := p.TypesInfo
		for _, fd := range funcDecls(p) {
			fk := funcKey(p, fd)
			ast.Inspect(fd.Body, func(n ast.Node) bool {
				c, ok := n.(*ast.CallExpr)
				if !ok {
					return true
				}
				cal, ok := calleeOf(info, c).(*types.Func)
				if !ok {
					return true
				}
				for i, a := range c.Args {
					if _, ok := paramWriters[pw{cal, i}]; !ok {
						continue
					}
					fromList := false
					ast.Inspect(a, func(m ast.Node) bool {
						if ix, ok := m.(*ast.IndexExpr); ok {
							if se, ok := ast.Unparen(ix.X).(*ast.SelectorExpr); ok && se.Sel.Name == "List" && isArr(info.TypeOf(se.X)) {
								fromList = true
							}
						}
						if cc, ok := m.(*ast.CallExpr); ok {
							if f, ok := calleeOf(info, cc).(*types.Func); ok && f.Name() == "FindSlotByIntKey" {
								fromList = true
							}
						}
						return true
					})
					key := fk + "#passes-cell:" + cal.Name()
					if fromList {
						r.bad(key, c.Pos(), "passes a cell of an array's slot list to "+cal.Name()+", which writes the cell's Value in place")
					} else {
						r.ok(key, c.Pos(), "the cell handed to the in-place writer "+cal.Name()+" is not taken from an array's slot list here")
					}
				}
				return true
			})
		}
	}

	// ---- NEST ----
	r.curRule = "C06-NEST"
	if np := r.pkg("node"); np != nil {
		info := np.TypesInfo
		if fd := findFunc(np, "IndexExpression", "SetValue"); fd == nil {
			r.fail("anchor not found: node.(IndexExpression).SetValue")
		} else {
			ie := r.lookupType(np, "IndexExpression")
			found, detaches := token.NoPos, false
			ast.Inspect(fd.Body, func(n ast.Node) bool {
				is, ok := n.(*ast.IfStmt)
				if !ok || is.Init == nil {
					return true
				}
				as, ok := is.Init.(*ast.AssignStmt)
				if !ok || len(as.Rhs) != 1 {
					return true
				}
				ta, ok := ast.Unparen(as.Rhs[0]).(*ast.TypeAssertExpr)
				if !ok || ta.Type == nil {
					return true
				}
				if pt, ok := info.TypeOf(ta.Type).(*types.Pointer); !ok || namedOf(pt.Elem()) != ie {
					return true
				}
				if !found.IsValid() {
					found = is.Pos()
				}
				ast.Inspect(is.Body, func(m ast.Node) bool {
					if c, ok := m.(*ast.CallExpr); ok {
						if f, ok := calleeOf(info, c).(*types.Func); ok && f.Name() == "CloneArrayValue" {
							detaches = true
						}
					}
					return true
				})
				return true
			})
			key := funcKey(np, fd) + "#nested-detach"
			switch {
			case !found.IsValid():
				r.fail("node.(IndexExpression).SetValue: nested-path branch (ie.Array.(*IndexExpression)) not found")
			case detaches:
				r.ok(key, found, "the inner array is copied and stored back before the nested write")
			default:
				r.bad(key, found, "on a nested path the inner array read from the parent is modified as is: the shallow copy made by assignment shares that inner array, so `$b = $a; $b[0][1] = 9` changes $a")
			}
		}
	}

	// ---- SINK ----
	r.curRule = "C06-SINK"
	clonesValue := func(p *packages.Package, fd *ast.FuncDecl, param types.Object) bool {
		info := p.TypesInfo
		// names bound to the parameter's dynamic *ArrayValue: switch x := param.(type) / x, ok := param.(*ArrayValue)
		bound := map[types.Object]bool{param: true}
		ast.Inspect(fd.Body, func(n ast.Node) bool {
			switch x := n.(type) {
			case *ast.TypeSwitchStmt:
				if as, ok := x.Assign.(*ast.AssignStmt); ok && len(as.Rhs) == 1 {
					if ta, ok := ast.Unparen(as.Rhs[0]).(*ast.TypeAssertExpr); ok {
						if id, ok := ast.Unparen(ta.X).(*ast.Ident); ok && info.Uses[id] == param {
							for _, cc := range x.Body.List {
								if o := info.Implicits[cc]; o != nil {
									bound[o] = true
								}
							}
						}
					}
				}
			case *ast.AssignStmt:
				if len(x.Rhs) == 1 {
					if ta, ok := ast.Unparen(x.Rhs[0]).(*ast.TypeAssertExpr); ok {
						if id, ok := ast.Unparen(ta.X).(*ast.Ident); ok && info.Uses[id] == param {
							if lid, ok := x.Lhs[0].(*ast.Ident); ok {
								if o := info.Defs[lid]; o != nil {
									bound[o] = true
								}
							}
						}
					}
				}
			}
			return true
		})
		found := false
		ast.Inspect(fd.Body, func(n ast.Node) bool {
			c, ok := n.(*ast.CallExpr)
			if !ok || len(c.Args) != 1 {
				return true
			}
			if f, ok := calleeOf(info, c).(*types.Func); ok && f.Name() == "CloneArrayValue" {
				if id, ok := ast.Unparen(c.Args[0]).(*ast.Ident); ok && bound[info.Uses[id]] {
					found = true
				}
			}
			return true
		})
		return found
	}
	sinks := []struct{ pkg, recv, fn, param string }{
		{"runtime", "Context", "SetVariableValue", "value"},
		{"runtime", "Context", "SetVariableByName", "value"},
		{"data", "ClassValue", "SetProperty", "value"},
		{"data", "ObjectValue", "SetProperty", "value"},
		{"node", "IndexExpression", "SetValue", "value"},
	}
	for _, s := range sinks {
		p := r.pkg(s.pkg)
		if p == nil {
			continue
		}
		fd := findFunc(p, s.recv, s.fn)
		if fd == nil {
			r.fail("anchor not found: %s.(%s).%s", s.pkg, s.recv, s.fn)
			continue
		}
		var param types.Object
		for _, f := range fd.Type.Params.List {
			for _, nm := range f.Names {
				if nm.Name == s.param {
					param = p.TypesInfo.Defs[nm]
				}
			}
		}
		key := funcKey(p, fd) + "#copies-array"
		if param == nil {
			r.fail("%s has no parameter %s", funcKey(p, fd), s.param)
			continue
		}
		if clonesValue(p, fd, param) {
			r.ok(key, fd.Pos(), "an *ArrayValue placed into this container is copied with CloneArrayValue first")
		} else {
			r.bad(key, fd.Pos(), "stores the value it is given without copying an *ArrayValue: the container and the source keep sharing one array object, so append/unset/sort through one name shows through the other")
		}
	}
	// array literal: every element obtained from a child evaluation is copied before it is stored
	if np := r.pkg("node"); np != nil {
		info := np.TypesInfo
		if fd := findFunc(np, "Array", "GetValue"); fd == nil {
			r.fail("anchor not found: node.(Array).GetValue")
		} else {
			// variables assigned from child GetValue and later handed to append/setArrayLiteralEntry
			elems := map[types.Object]token.Pos{}
			cloned := map[types.Object]bool{}
			ast.Inspect(fd.Body, func(n ast.Node) bool {
				switch x := n.(type) {
				case *ast.AssignStmt:
					if len(x.Rhs) == 1 {
						if c, ok := ast.Unparen(x.Rhs[0]).(*ast.CallExpr); ok {
							if f, ok := calleeOf(info, c).(*types.Func); ok {
								if f.Name() == "CloneArrayValue" {
									if id, ok := x.Lhs[0].(*ast.Ident); ok {
										cloned[info.Uses[id]] = true
									}
								}
							}
						}
					}
				case *ast.CallExpr:
					name := ""
					if id, ok := ast.Unparen(x.Fun).(*ast.Ident); ok {
						name = id.Name
					}
					if name == "append" || name == "setArrayLiteralEntry" {
						first := 1
						if name == "setArrayLiteralEntry" {
							first = 2 // (array, key, value)
						}
						for _, a := range x.Args[first:] {
							ast.Inspect(a, func(m ast.Node) bool {
								if id, ok := m.(*ast.Ident); ok {
									if v, ok := info.Uses[id].(*types.Var); ok && isNamed(v.Type(), modPath+"/data", "GetValue") {
										elems[v] = x.Pos()
									}
								}
								return true
							})
						}
					}
				}
				return true
			})
			if len(elems) == 0 {
				r.fail("node.(Array).GetValue: no element store found")
			}
			names := []types.Object{}
			for o := range elems {
				names = append(names, o)
			}
			sort.Slice(names, func(i, j int) bool { return elems[names[i]] < elems[names[j]] })
			for _, o := range names {
				key := funcKey(np, fd) + "#copies-element:" + o.Name()
				if cloned[o] {
					r.ok(key, elems[o], "an array used as an element of a literal is copied first")
				} else {
					r.bad(key, elems[o], "the literal stores the evaluated element "+o.Name()+" as is: `$c = [$a]` then shares $a's array object")
				}
			}
		}
		// clone: properties are copied through SetProperty (a copying sink)
		if fd := findFunc(np, "CloneExpression", "GetValue"); fd == nil {
			r.fail("anchor not found: node.(CloneExpression).GetValue")
		} else {
			via := false
			ast.Inspect(fd.Body, func(n ast.Node) bool {
				if c, ok := n.(*ast.CallExpr); ok {
					if f, ok := calleeOf(info, c).(*types.Func); ok && f.Name() == "SetProperty" {
						via = true
					}
				}
				return true
			})
			key := funcKey(np, fd) + "#properties-through-sink"
			if via {
				r.ok(key, fd.Pos(), "clone copies every own property through SetProperty, which copies array values")
			} else {
				r.bad(key, fd.Pos(), "clone does not copy the properties through SetProperty: array-valued properties of the clone share the original's array object")
			}
		}
	}
}

// freshValue: e is a value that cannot be an array shared with another holder: built here
// (constructor New*/Clone*/make, &T{…}), a scalar by static type, or a local every assignment of
// which is such an expression.
func freshValue(info *types.Info, fd *ast.FuncDecl, e ast.Expr, cell string, depth int) bool {
	if depth > 4 {
		return false
	}
	e = ast.Unparen(e)
	if ta, ok := e.(*ast.TypeAssertExpr); ok {
		return freshValue(info, fd, ta.X, cell, depth+1)
	}
	// the value already held by this very slot
	if se, ok := e.(*ast.SelectorExpr); ok && se.Sel.Name == "Value" && exprStr(se.X) == cell {
		return true
	}
	if t := info.TypeOf(e); t != nil {
		if p, ok := t.(*types.Pointer); ok {
			if n := namedOf(p.Elem()); n != nil {
				switch n.Obj().Name() {
				case "IntValue", "FloatValue", "BoolValue", "NullValue", "StringValue":
					return true
				}
			}
		}
	}
	switch x := e.(type) {
	case *ast.UnaryExpr:
		if _, ok := x.X.(*ast.CompositeLit); ok && x.Op == token.AND {
			return true
		}
	case *ast.CallExpr:
		name := ""
		switch f := ast.Unparen(x.Fun).(type) {
		case *ast.Ident:
			name = f.Name
		case *ast.SelectorExpr:
			name = f.Sel.Name
		}
		if strings.HasPrefix(name, "New") || strings.HasPrefix(name, "Clone") || strings.HasPrefix(name, "new") || strings.HasPrefix(name, "build") || strings.HasPrefix(name, "make") {
			return true
		}
	case *ast.Ident:
		o := info.Uses[x]
		if o == nil {
			return false
		}
		n, all := 0, true
		ast.Inspect(fd.Body, func(m ast.Node) bool {
			as, ok := m.(*ast.AssignStmt)
			if !ok {
				return true
			}
			for i, l := range as.Lhs {
				id, ok := l.(*ast.Ident)
				if !ok {
					continue
				}
				if info.Defs[id] != o && info.Uses[id] != o {
					continue
				}
				n++
				switch {
				case len(as.Rhs) == len(as.Lhs):
					if !freshValue(info, fd, as.Rhs[i], cell, depth+1) {
						all = false
					}
				case len(as.Rhs) == 1 && i == 0:
					// v, ok := x.(T)
					if !freshValue(info, fd, as.Rhs[0], cell, depth+1) {
						all = false
					}
				default:
					all = false
				}
			}
			return true
		})
		return n > 0 && all
	}
	return false
}
