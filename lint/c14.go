package main

import (
	"fmt"
	"go/ast"
	"go/token"
	"go/types"
	"path/filepath"
	"sort"
	"strings"
)

func init() {
	register(&PropDef{
		ID:          "C14",
		Patterns:    []string{"./std/protowire", "./std/php"},
		Explanation: "Faithfulness of the encoders is value-level and not decided. Totality of the two hand-written byte-level decoders (protobuf wire parser, unserialize) has structural parts that are: (IDX) every index and slice of the input in std/protowire and in unserialize's parser is within bounds on every path — for protowire this includes that each Consume* length is tested (n <= 0 ⇒ error) before it is used as a slice bound; (DEPTH) every recursion cycle of the protowire parser passes the MaxDepth rejection and increases depth; (ALL) a decoder that does not return the unread remainder reports success only when no input is left; (ALLOC) an allocation sized by a decoded number is dominated by a bound tied to the remaining input. JSON decoding is delegated to encoding/json and trusted.",
		Assumptions: []string{
			"protowire.Consume* return a byte count <= len(input) or a negative error code (library contract)",
			"A-IDX-NONNEG as in C01",
		},
		Rules: []RuleDef{
			{Name: "C14-IDX", Floor: 16, Doc: "every index/slice of the input in std/protowire and std/php/unserialize.go is in bounds on every path (zone abstract interpretation, Consume* contract modelled)", Run: c14Run},
			{Name: "C14-ALL", Floor: 1, Doc: "decoders that do not return a remainder return success only with len(data) == 0", Run: nop},
			{Name: "C14-DEPTH", Floor: 2, Doc: "every recursion cycle among the protowire parser's functions passes the depth guard and increments depth; unserialize's recursion is listed", Run: nop},
			{Name: "C14-ALLOC", Floor: 1, Doc: "make(…, n) with n parsed from the input is dominated by an upper bound tied to the remaining input", Run: nop},
		},
	})
}

func c14Run(r *Run) {
	pw := r.pkg("std/protowire")
	php := r.pkg("std/php")
	if pw == nil || php == nil {
		return
	}
	// ---- IDX ----
	r.curRule = "C14-IDX"
	apw := idxAnalysisOf(r, "std/protowire")
	emit := func(a *idxAnalyzer, only func(fd *ast.FuncDecl) bool) {
		sort.SliceStable(a.sites, func(i, j int) bool { return a.sites[i].pos < a.sites[j].pos })
		for _, s := range a.sites {
			if only != nil && !only(s.fn) {
				continue
			}
			key := fmt.Sprintf("%s#%s:%s", funcKey(a.pkg, s.fn), s.kind, strings.ReplaceAll(s.expr, " ", ""))
			if ctx := loopContext(s.fn, s.pos); ctx != "" {
				key += "@" + ctx
			}
			if s.ok {
				r.ok(key, s.pos, s.msg)
			} else {
				r.bad(key, s.pos, s.msg)
			}
		}
		for _, co := range a.callObls {
			if only != nil && !only(co.fn) {
				continue
			}
			key := fmt.Sprintf("%s#call-pre:%s", funcKey(a.pkg, co.fn), strings.ReplaceAll(co.what, " ", ""))
			if co.ok {
				r.ok(key, co.pos, "callee precondition proven at this call: "+co.what)
			} else {
				r.bad(key, co.pos, "callee indexes its input assuming "+co.what+", which is not proven at this call")
			}
		}
	}
	emit(apw, nil)
	// unserialize: only the functions of the file that defines parsePhpValue
	var unserFile string
	for _, fd := range funcDecls(php) {
		if fd.Name.Name == "parsePhpValue" {
			unserFile = r.Fset.Position(fd.Pos()).Filename
		}
	}
	if unserFile == "" {
		r.fail("anchor not found: std/php.parsePhpValue")
	} else {
		// … and the text codecs of the package (the files the property names: *encode*, *decode*, bin2hex,
		// serialize), with the package functions they call
		isCodecFile := func(name string) bool {
			b := filepath.Base(name)
			return strings.Contains(b, "decode") || strings.Contains(b, "encode") || strings.HasPrefix(b, "bin2hex") || strings.HasPrefix(b, "serialize") || strings.HasPrefix(b, "unserialize")
		}
		var fds []*ast.FuncDecl
		inSet := map[*ast.FuncDecl]bool{}
		for _, fd := range funcDecls(php) {
			fn := r.Fset.Position(fd.Pos()).Filename
			if fd.Body != nil && (fn == unserFile || isCodecFile(fn)) {
				fds = append(fds, fd)
				inSet[fd] = true
			}
		}
		for i := 0; i < len(fds); i++ {
			ast.Inspect(fds[i].Body, func(n ast.Node) bool {
				if c, ok := n.(*ast.CallExpr); ok {
					if cal := calleeFunc(php.TypesInfo, c); cal != nil && cal.Pkg() == php.Types {
						if hd := declOf(php, cal); hd != nil && hd.Body != nil && !inSet[hd] {
							inSet[hd] = true
							fds = append(fds, hd)
						}
					}
				}
				return true
			})
		}
		sort.Slice(fds, func(i, j int) bool { return fds[i].Pos() < fds[j].Pos() })
		a := newIdxAnalyzer(r, php)
		a.runAll(fds)
		emit(a, nil)
		c14All(r, a, fds)
	}

	// ---- ALL (protowire) ----
	c14All(r, apw, funcDecls(pw))

	// ---- DEPTH ----
	c14Depth(r)

	// ---- ALLOC ----
	c14Alloc(r)
}

// c14All: functions taking the input as a parameter named data/[]byte and not returning a
// []byte remainder may return success (nil error / true) only when len(data) == 0.
func c14All(r *Run, a *idxAnalyzer, fds []*ast.FuncDecl) {
	r.curRule = "C14-ALL"
	// token-level JSON decoding validates only what it consumes: a function that reads a document with
	// json.Decoder.Token must validate the whole text (json.Valid / Unmarshal) or see io.EOF after the
	// top-level value; Decoder.More() is not such a test (it answers false before a stray ] or })
	if php := r.pkg("std/php"); php != nil {
		pinfo := php.TypesInfo
		for _, fd := range funcDecls(php) {
			usesToken, whole, eof := false, false, false
			var tokPos token.Pos
			ast.Inspect(fd.Body, func(n ast.Node) bool {
				switch x := n.(type) {
				case *ast.CallExpr:
					if cal, ok := calleeOf(pinfo, x).(*types.Func); ok && cal.Pkg() != nil && cal.Pkg().Path() == "encoding/json" {
						switch cal.Name() {
						case "Token":
							usesToken = true
							if !tokPos.IsValid() {
								tokPos = x.Pos()
							}
						case "Valid", "Unmarshal":
							whole = true
						}
					}
				case *ast.SelectorExpr:
					if id, ok := ast.Unparen(x.X).(*ast.Ident); ok && id.Name == "io" && x.Sel.Name == "EOF" {
						eof = true
					}
				}
				return true
			})
			// the helper that walks the tokens may be separate from the entry that validates: judge entries
			// that create the decoder, and look for Token() in the package helpers they hand it to
			creates := false
			ast.Inspect(fd.Body, func(n ast.Node) bool {
				if c, ok := n.(*ast.CallExpr); ok {
					if cal, ok := calleeOf(pinfo, c).(*types.Func); ok && cal.Pkg() != nil && cal.Pkg().Path() == "encoding/json" && cal.Name() == "NewDecoder" {
						creates = true
					}
				}
				return true
			})
			if !creates {
				continue
			}
			if !usesToken {
				ast.Inspect(fd.Body, func(n ast.Node) bool {
					if c, ok := n.(*ast.CallExpr); ok {
						if cal, ok := calleeOf(pinfo, c).(*types.Func); ok && cal.Pkg() == php.Types {
							if hd := declOf(php, cal); hd != nil && hd.Body != nil {
								ast.Inspect(hd.Body, func(m ast.Node) bool {
									if hc, ok := m.(*ast.CallExpr); ok {
										if hcal, ok := calleeOf(pinfo, hc).(*types.Func); ok && hcal.Pkg() != nil && hcal.Pkg().Path() == "encoding/json" && hcal.Name() == "Token" {
											usesToken = true
											if !tokPos.IsValid() {
												tokPos = c.Pos()
											}
										}
									}
									return true
								})
							}
						}
					}
					return true
				})
			}
			if !usesToken {
				continue
			}
			key := funcKey(php, fd) + "#whole-document"
			if whole || eof {
				r.ok(key, tokPos, "the token-level decoder's input is validated as a whole (json.Valid / Unmarshal) or read to io.EOF")
			} else {
				r.bad(key, tokPos, "the document is decoded token by token and nothing establishes that the whole text is one well-formed value (no json.Valid / Unmarshal of the input, no io.EOF after the value): trailing bytes such as a stray ] or } are silently ignored")
			}
		}
	}
	info := a.info
	for _, fd := range fds {
		obj, _ := info.Defs[fd.Name].(*types.Func)
		if obj == nil {
			continue
		}
		sig := obj.Type().(*types.Signature)
		// input parameter: first []byte parameter
		var inParam *ast.Ident
		for _, p := range paramList(fd.Type.Params) {
			if p == nil {
				continue
			}
			if sl, ok := info.TypeOf(p).Underlying().(*types.Slice); ok {
				if b, ok := sl.Elem().Underlying().(*types.Basic); ok && b.Kind() == types.Byte {
					inParam = p
					break
				}
			}
		}
		if inParam == nil || sig.Results().Len() == 0 {
			continue
		}
		// a decoder hands the rest of the input back to its caller as a remainder slice, or as the number
		// of bytes it used (an int result its return summary bounds by the input's length)
		returnsRemainder := false
		for _, f := range a.retLE[obj] {
			if f.lenOf && !f.geParam && f.param >= 0 && f.res < sig.Results().Len() && isIntType(sig.Results().At(f.res).Type()) {
				returnsRemainder = true
			}
		}
		lastIsErr := types.Identical(sig.Results().At(sig.Results().Len()-1).Type(), types.Universe.Lookup("error").Type())
		for i := 0; i < sig.Results().Len(); i++ {
			if sl, ok := sig.Results().At(i).Type().Underlying().(*types.Slice); ok {
				if b, ok := sl.Elem().Underlying().(*types.Basic); ok && b.Kind() == types.Byte {
					returnsRemainder = true
				}
			}
		}
		// only decoders that loop over the input
		loops := false
		ast.Inspect(fd.Body, func(n ast.Node) bool {
			if f, ok := n.(*ast.ForStmt); ok && f.Cond != nil && strings.Contains(exprStr(f.Cond), "len("+inParam.Name+")") {
				loops = true
			}
			return true
		})
		if returnsRemainder || !lastIsErr || !loops {
			continue
		}
		// re-run the walk for this function collecting return states
		a.curFn = fd
		a.setUnit(obj, fd.Type.Params, fd)
		a.retStates = nil
		save := a.sites
		a.walkBody(fd.Body, a.entryZone())
		a.sites = save
		sk, _ := a.termKey(inParam)
		fk := funcKey(a.pkg, fd)
		n := 0
		for _, rc := range a.retStates {
			if len(rc.rs.Results) != sig.Results().Len() || exprStr(rc.rs.Results[len(rc.rs.Results)-1]) != "nil" {
				continue
			}
			n++
			key := fk + "#success-return"
			// no input left: len(data) == 0, or the offset cursor the function slices the input at
			// (data[pos:]) has reached len(data)
			done := a.proveLE(rc.z, a.lenLin(sk), 0)
			if !done {
				ast.Inspect(fd.Body, func(n ast.Node) bool {
					se, ok := n.(*ast.SliceExpr)
					if !ok || se.Low == nil || se.High != nil || done {
						return !done
					}
					if id, ok := ast.Unparen(se.X).(*ast.Ident); !ok || info.Uses[id] != info.Defs[inParam] {
						return true
					}
					if cur, ok := a.lin(se.Low); ok {
						if _, single := cur.single(); single && a.proveLE(rc.z, linSub(a.lenLin(sk), cur), 0) {
							done = true
						}
					}
					return !done
				})
			}
			if done {
				r.ok(key, rc.rs.Pos(), "success is returned only when no input is left")
			} else {
				r.bad(key, rc.rs.Pos(), fmt.Sprintf("returns success on a path where len(%s) is not known to be 0: trailing bytes are silently dropped", inParam.Name))
			}
		}
		_ = n
	}
}

// c14Depth: recursion cycles among the protowire parser's functions.
func c14Depth(r *Run) {
	r.curRule = "C14-DEPTH"
	c14DepthGraph(r, "std/protowire", "ParseRawFields", "protowire")
	c14DepthGraph(r, "std/php", "parsePhpSerializedValue", "unserialize")
	pw := r.pkg("std/protowire")
	// entry normalises a non-positive limit
	if entry := findFunc(pw, "", "ParseRawFields"); entry != nil {
		norm := false
		ast.Inspect(entry.Body, func(n ast.Node) bool {
			if ifs, ok := n.(*ast.IfStmt); ok && strings.Contains(exprStr(ifs.Cond), "MaxDepth") {
				for _, s := range ifs.Body.List {
					if as, ok := s.(*ast.AssignStmt); ok && strings.Contains(exprStr(as.Lhs[0]), "MaxDepth") {
						norm = true
					}
				}
			}
			return true
		})
		if norm {
			r.ok("protowire.ParseRawFields#default-limit", entry.Pos(), "a zero or negative MaxDepth is replaced by a positive default")
		} else {
			r.bad("protowire.ParseRawFields#default-limit", entry.Pos(), "a zero MaxDepth is passed on unchanged: depth >= 0 rejects every input, or a negative limit disables the guard")
		}
	}
}

func c14DepthGraph(r *Run, rel, entryName, label string) {
	pw := r.pkg(rel)
	info := pw.TypesInfo
	declOf := map[*types.Func]*ast.FuncDecl{}
	for _, fd := range funcDecls(pw) {
		if o, ok := info.Defs[fd.Name].(*types.Func); ok {
			declOf[o] = fd
		}
	}
	depthParam := func(fd *ast.FuncDecl) (int, *ast.Ident) {
		for i, p := range paramList(fd.Type.Params) {
			if p != nil && strings.Contains(strings.ToLower(p.Name), "depth") && isIntType(info.TypeOf(p)) {
				return i, p
			}
		}
		return -1, nil
	}
	type edge struct {
		from, to *types.Func
		incr     bool
		pos      token.Pos
	}
	var edges []edge
	for fn, fd := range declOf {
		_, dp := depthParam(fd)
		ast.Inspect(fd.Body, func(n ast.Node) bool {
			c, ok := n.(*ast.CallExpr)
			if !ok {
				return true
			}
			cal, ok := calleeOf(info, c).(*types.Func)
			if !ok || declOf[cal] == nil {
				return true
			}
			ci, _ := depthParam(declOf[cal])
			incr := false
			isIncr := func(e ast.Expr) bool {
				if be, ok := ast.Unparen(e).(*ast.BinaryExpr); ok && be.Op == token.ADD {
					if id, ok := ast.Unparen(be.X).(*ast.Ident); ok && id.Name == dp.Name {
						if tv, ok := info.Types[be.Y]; ok && tv.Value != nil && tv.Value.String() != "0" && !strings.HasPrefix(tv.Value.String(), "-") {
							return true
						}
					}
				}
				return false
			}
			if ci >= 0 && ci < len(c.Args) && dp != nil {
				if isIncr(c.Args[ci]) {
					incr = true
				} else if id, ok := ast.Unparen(c.Args[ci]).(*ast.Ident); ok && id.Name != dp.Name {
					// a local that starts as depth and is stepped to depth+1 for the nested case
					// (valueDepth := depth; if nested { valueDepth = depth + 1 }): every assignment is
					// depth or depth+k, at least one of them depth+k
					obj := info.Uses[id]
					n, stepped, clean := 0, false, true
					ast.Inspect(fd.Body, func(m ast.Node) bool {
						as, ok := m.(*ast.AssignStmt)
						if !ok || len(as.Lhs) != len(as.Rhs) {
							return true
						}
						for i, l := range as.Lhs {
							lid, ok := l.(*ast.Ident)
							if !ok || (info.Defs[lid] != obj && info.Uses[lid] != obj) {
								continue
							}
							n++
							switch {
							case isIncr(as.Rhs[i]):
								stepped = true
							case exprStr(as.Rhs[i]) == dp.Name:
							default:
								clean = false
							}
						}
						return true
					})
					if n > 0 && stepped && clean {
						incr = true
					}
				}
			}
			edges = append(edges, edge{fn, cal, incr, c.Pos()})
			return true
		})
	}
	// only the decoder: functions reachable from ParseRawFields
	reach := map[*types.Func]bool{}
	if entry, ok := pw.Types.Scope().Lookup(entryName).(*types.Func); ok {
		var visit func(f *types.Func)
		visit = func(f *types.Func) {
			if reach[f] {
				return
			}
			reach[f] = true
			for _, e := range edges {
				if e.from == f {
					visit(e.to)
				}
			}
		}
		visit(entry)
	} else {
		r.fail("anchor not found: %s.%s", rel, entryName)
	}
	{
		kept := edges[:0]
		for _, e := range edges {
			if reach[e.from] && reach[e.to] {
				kept = append(kept, e)
			}
		}
		edges = kept
	}
	var hasGuard func(fd *ast.FuncDecl) bool
	hasGuard = func(fd *ast.FuncDecl) bool {
		_, dp := depthParam(fd)
		if dp == nil {
			return false
		}
		g := false
		// the guard may live in a helper: if err := checkDepth(depth, …); err != nil { return …, err }
		ast.Inspect(fd.Body, func(n ast.Node) bool {
			ifs, ok := n.(*ast.IfStmt)
			if !ok || ifs.Init == nil {
				return true
			}
			as, ok := ifs.Init.(*ast.AssignStmt)
			if !ok || len(as.Rhs) != 1 {
				return true
			}
			c, ok := ast.Unparen(as.Rhs[0]).(*ast.CallExpr)
			if !ok {
				return true
			}
			cal, ok := calleeOf(info, c).(*types.Func)
			if !ok || declOf[cal] == nil || declOf[cal] == fd {
				return true
			}
			passes := false
			for _, a := range c.Args {
				if id, ok := ast.Unparen(a).(*ast.Ident); ok && id.Name == dp.Name {
					passes = true
				}
			}
			if !passes || !(hasGuard(declOf[cal]) || isDepthPredicate(info, declOf[cal], depthParam)) {
				return true
			}
			for _, s := range ifs.Body.List {
				if rs, ok := s.(*ast.ReturnStmt); ok && len(rs.Results) > 0 && exprStr(rs.Results[len(rs.Results)-1]) != "nil" {
					g = true
				}
			}
			return true
		})
		if g {
			return true
		}
		ast.Inspect(fd.Body, func(n ast.Node) bool {
			ifs, ok := n.(*ast.IfStmt)
			if !ok {
				return true
			}
			be, ok := ast.Unparen(ifs.Cond).(*ast.BinaryExpr)
			if !ok || (be.Op != token.GEQ && be.Op != token.GTR) {
				return true
			}
			if id, ok := ast.Unparen(be.X).(*ast.Ident); !ok || id.Name != dp.Name {
				return true
			}
			for _, s := range ifs.Body.List {
				if rs, ok := s.(*ast.ReturnStmt); ok && len(rs.Results) > 0 && exprStr(rs.Results[len(rs.Results)-1]) != "nil" {
					g = true
				}
			}
			return true
		})
		return g
	}
	// cycle check helper: is there a cycle using only edges accepted by keep?
	cyclic := func(keep func(e edge) bool) *edge {
		adj := map[*types.Func][]edge{}
		for _, e := range edges {
			if keep(e) {
				adj[e.from] = append(adj[e.from], e)
			}
		}
		color := map[*types.Func]int{}
		var found *edge
		var dfs func(f *types.Func)
		dfs = func(f *types.Func) {
			color[f] = 1
			for i := range adj[f] {
				e := adj[f][i]
				if color[e.to] == 1 && found == nil {
					found = &e
				}
				if color[e.to] == 0 {
					dfs(e.to)
				}
			}
			color[f] = 2
		}
		fns := []*types.Func{}
		for f := range declOf {
			fns = append(fns, f)
		}
		sort.Slice(fns, func(i, j int) bool { return fns[i].Pos() < fns[j].Pos() })
		for _, f := range fns {
			if color[f] == 0 {
				dfs(f)
			}
		}
		return found
	}
	if e := cyclic(func(e edge) bool { return true }); e == nil {
		r.info(label+"#recursion", 0, "the "+label+" decoder is not recursive")
	} else {
		// (1) every cycle passes a guarded function
		if e := cyclic(func(e edge) bool { return !hasGuard(declOf[e.from]) && !hasGuard(declOf[e.to]) }); e != nil {
			r.bad(label+"#cycle-without-guard", e.pos, fmt.Sprintf("a recursion cycle through %s → %s passes no function that rejects depth >= MaxDepth", e.from.Name(), e.to.Name()))
		} else {
			r.ok(label+"#cycle-without-guard", 0, "every recursion cycle passes a function that rejects depth >= MaxDepth")
		}
		// (2) every cycle contains an incrementing edge
		if e := cyclic(func(e edge) bool { return !e.incr }); e != nil {
			r.bad(label+"#cycle-without-increment", e.pos, fmt.Sprintf("a recursion cycle through %s → %s never passes depth+1: the limit is never reached and nesting is unbounded", e.from.Name(), e.to.Name()))
		} else {
			r.ok(label+"#cycle-without-increment", 0, "every recursion cycle increases depth on at least one edge")
		}
	}
}

// c14Alloc: make(_, n) / make(_, 0, n) with n a number decoded from the input (strconv result, or the
// integer result of a parser helper that returns such a number) must be dominated by a comparison of n
// with a len()-based bound whose failing arm leaves the function — in the allocating function or in
// the helper that produced n.
func c14Alloc(r *Run) {
	r.curRule = "C14-ALLOC"
	php := r.pkg("std/php")
	info := php.TypesInfo
	declOf := map[types.Object]*ast.FuncDecl{}
	for _, fd := range funcDecls(php) {
		declOf[info.Defs[fd.Name]] = fd
	}
	// variables of fd holding a strconv result
	parsedVars := func(fd *ast.FuncDecl) map[types.Object]bool {
		parsed := map[types.Object]bool{}
		ast.Inspect(fd.Body, func(n ast.Node) bool {
			if as, ok := n.(*ast.AssignStmt); ok && len(as.Rhs) == 1 {
				if c, ok := ast.Unparen(as.Rhs[0]).(*ast.CallExpr); ok {
					if cal, ok := calleeOf(info, c).(*types.Func); ok && cal.Pkg() != nil && cal.Pkg().Path() == "strconv" {
						if id, ok := as.Lhs[0].(*ast.Ident); ok {
							if o := info.Defs[id]; o != nil {
								parsed[o] = true
							} else if o := info.Uses[id]; o != nil {
								parsed[o] = true
							}
						}
					}
				}
			}
			return true
		})
		return parsed
	}
	// boundedBefore: an if before pos compares obj with a len()-based bound (>, >=) and its body leaves
	boundedBefore := func(fd *ast.FuncDecl, obj types.Object, pos token.Pos) bool {
		bounded := false
		ast.Inspect(fd.Body, func(m ast.Node) bool {
			ifs, ok := m.(*ast.IfStmt)
			if !ok || ifs.Pos() > pos {
				return true
			}
			hit := false
			ast.Inspect(ifs.Cond, func(c ast.Node) bool {
				be, ok := c.(*ast.BinaryExpr)
				if !ok || (be.Op != token.GTR && be.Op != token.GEQ) {
					return true
				}
				if x, ok := ast.Unparen(be.X).(*ast.Ident); ok && info.Uses[x] == obj && strings.Contains(exprStr(be.Y), "len(") {
					hit = true
				}
				return true
			})
			if hit {
				for _, st := range ifs.Body.List {
					if _, ok := st.(*ast.ReturnStmt); ok {
						bounded = true
					}
				}
			}
			return true
		})
		return bounded
	}
	// helperSize: h returns an input-decoded integer as result ri; bounded if every successful return of
	// it is preceded by the bound test
	type sizeInfo struct{ decoded, bounded bool }
	helperSize := func(h *ast.FuncDecl, ri int) sizeInfo {
		parsed := parsedVars(h)
		out := sizeInfo{bounded: true}
		ast.Inspect(h.Body, func(n ast.Node) bool {
			rs, ok := n.(*ast.ReturnStmt)
			if !ok || ri >= len(rs.Results) {
				return true
			}
			id, ok := ast.Unparen(rs.Results[ri]).(*ast.Ident)
			if !ok {
				return true
			}
			if o := info.Uses[id]; parsed[o] {
				out.decoded = true
				if !boundedBefore(h, o, rs.Pos()) {
					out.bounded = false
				}
			}
			return true
		})
		return out
	}
	for _, fd := range funcDecls(php) {
		if !strings.HasPrefix(fd.Name.Name, "parsePhp") {
			continue
		}
		parsed := parsedVars(fd)
		fromHelper := map[types.Object]sizeInfo{}
		ast.Inspect(fd.Body, func(n ast.Node) bool {
			as, ok := n.(*ast.AssignStmt)
			if !ok || len(as.Rhs) != 1 {
				return true
			}
			c, ok := ast.Unparen(as.Rhs[0]).(*ast.CallExpr)
			if !ok {
				return true
			}
			h := declOf[calleeOf(info, c)]
			if h == nil || h == fd {
				return true
			}
			for i, l := range as.Lhs {
				id, ok := l.(*ast.Ident)
				if !ok || id.Name == "_" {
					continue
				}
				o := info.Defs[id]
				if o == nil {
					o = info.Uses[id]
				}
				if o == nil || !isIntType(o.Type()) {
					continue
				}
				if si := helperSize(h, i); si.decoded {
					fromHelper[o] = si
				}
			}
			return true
		})
		ast.Inspect(fd.Body, func(n ast.Node) bool {
			c, ok := n.(*ast.CallExpr)
			if !ok {
				return true
			}
			id, ok := ast.Unparen(c.Fun).(*ast.Ident)
			if !ok || id.Name != "make" || len(c.Args) < 2 {
				return true
			}
			for _, a := range c.Args[1:] {
				aid, ok := ast.Unparen(a).(*ast.Ident)
				if !ok {
					continue
				}
				o := info.Uses[aid]
				si, viaHelper := fromHelper[o]
				if !parsed[o] && !viaHelper {
					continue
				}
				bounded := boundedBefore(fd, o, c.Pos()) || (viaHelper && si.bounded)
				key := fmt.Sprintf("std/php#make-sized-by-input:%s", aid.Name)
				if bounded {
					r.ok(key, c.Pos(), "allocation size "+aid.Name+" is bounded by the remaining input before it is used")
				} else {
					r.bad(key, c.Pos(), "allocates "+aid.Name+" elements where "+aid.Name+" is a number read from the input with no bound tied to the input length: a few bytes can demand terabytes")
				}
			}
			return true
		})
	}
}

// isDepthPredicate: a helper whose only result is an error, that compares its depth parameter with a
// limit and has both a nil and a non-nil outcome (either polarity of the comparison).
func isDepthPredicate(info *types.Info, fd *ast.FuncDecl, depthParam func(*ast.FuncDecl) (int, *ast.Ident)) bool {
	if fd == nil || fd.Type.Results == nil || fd.Type.Results.NumFields() != 1 {
		return false
	}
	if t := info.TypeOf(fd.Type.Results.List[0].Type); t == nil || t.String() != "error" {
		return false
	}
	_, dp := depthParam(fd)
	if dp == nil {
		return false
	}
	cmp, retNil, retErr := false, false, false
	ast.Inspect(fd.Body, func(n ast.Node) bool {
		switch x := n.(type) {
		case *ast.BinaryExpr:
			switch x.Op {
			case token.LSS, token.LEQ, token.GTR, token.GEQ:
				for _, side := range []ast.Expr{x.X, x.Y} {
					if id, ok := ast.Unparen(side).(*ast.Ident); ok && id.Name == dp.Name {
						cmp = true
					}
				}
			}
		case *ast.ReturnStmt:
			if len(x.Results) == 1 {
				if exprStr(x.Results[0]) == "nil" {
					retNil = true
				} else {
					retErr = true
				}
			}
		}
		return true
	})
	return cmp && retNil && retErr
}
