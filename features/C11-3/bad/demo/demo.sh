#!/bin/bash
# Demo for f7 C11 (bad variant): per-request work hoisted out of the HTTP handler.
# Builds the interpreter from $WT, starts server.php on a local port and sends
#  (1) three sequential requests to /count (a handler local must start fresh for each request),
#  (2) two overlapping requests to /greet: A is parked at a gate after reading its request, B runs to
#      completion, then A is released; each answer must name its own request.
# Exits 0 when all responses match expected.txt, 1 when they differ, 2 on build/startup failure.
export GOFLAGS=-mod=mod GOPROXY=off
WT=${WT:-/tmp/seed/wt_S4B}
HERE="$(cd "$(dirname "$0")" && pwd)"
BIN=$(mktemp /tmp/seed/origami_C11_demo_XXXXXX)
LOG=$(mktemp /tmp/seed/origami_C11_demo_log_XXXXXX)
SRV=
trap '[ -n "$SRV" ] && { pkill -9 -P $SRV; kill -9 $SRV; } 2>/dev/null; rm -f "$BIN" "$LOG"' EXIT
(cd "$WT" && go build -o "$BIN" .) || { echo "BUILD FAILED"; exit 2; }
export DEMO_PORT=$((20000 + ($$ % 20000)))
U=http://127.0.0.1:$DEMO_PORT
(cd "$HERE" && exec timeout -s KILL 18 "$BIN" server.php) > "$LOG" 2>&1 &
SRV=$!
disown $SRV
for i in $(seq 1 50); do curl -s -o /dev/null "$U/nothing" && break; sleep 0.1; done
curl -s -o /dev/null "$U/nothing" || { echo "SERVER DID NOT START"; cat "$LOG"; exit 2; }
OUT=$(
  echo "count a: $(curl -s -m 5 "$U/count?tag=a")"
  echo "count b: $(curl -s -m 5 "$U/count?tag=b")"
  echo "count c: $(curl -s -m 5 "$U/count?tag=c")"
  A=$(mktemp); curl -s -m 8 "$U/greet?name=alice&park=1" > "$A" &
  APID=$!
  sleep 0.6
  echo "greet bob (while alice is parked): $(curl -s -m 5 "$U/greet?name=bob")"
  echo "release: $(curl -s -m 5 "$U/release")"
  wait $APID
  echo "greet alice (parked, then released): $(cat "$A")"; rm -f "$A"
)
echo "$OUT"
if [ "$OUT" == "$(cat "$HERE/expected.txt")" ]; then
  echo "DEMO PASS: responses match expected.txt"
  exit 0
fi
echo "DEMO FAIL: responses differ from expected.txt:"
diff <(echo "$OUT") "$HERE/expected.txt"
echo "--- server log (head)"; head -5 "$LOG"
exit 1
