<?php
use Net\Http\Server;

$server = new Server('127.0.0.1', (int) getenv('DEMO_PORT'));

// local variables of a handler belong to one request
$server->get('/count', function ($req, $res) {
    if (!isset($seen)) {
        $seen = [];
    }
    $seen[] = $req->query()->tag;
    $res->write("seen=" . implode(",", $seen));
});

// the handler reads its request, is parked at a gate while another request runs to completion,
// and answers from its own locals and its own $req/$res
$gate = new Channel(1);
$server->get('/release', function ($req, $res) use ($gate) {
    $gate->send(1);
    $res->write("released");
});
$server->get('/greet', function ($req, $res) use ($gate) {
    $q = $req->query();
    $name = $q->name;
    if ($q->park == "1") {
        $gate->receive(); // parked between reading the request and answering it
    }
    $res->write("hello " . $name . " / " . $req->query()->name);
});

$server->run();
