package main

import (
	"fmt"
	"os"
	"path/filepath"

	"github.com/php-any/origami/parser"
	"github.com/php-any/origami/runtime"
	"github.com/php-any/origami/std"
	"github.com/php-any/origami/std/php"
)

const script = `<?php
function show($label, $v) {
    report($label . ' => ' . var_export($v, true));
}
// parameters
show('describe(null)', describe(null));
show('describe("abc")', describe("abc"));
show('describe("")', describe(""));
show('addOpt(40, 2)', addOpt(40, 2));
show('addOpt(40, null)', addOpt(40, null));
show('half(null)', half(null));
show('half(3.0) === 1.5', half(3.0) === 1.5);
// results
show('findName(1)', findName(1));
show('findAge(1)', findAge(1));
show('findFlag(1)', findFlag(1));
show('findName(2)', findName(2));
show('findAge(2)', findAge(2));
show('findFlag(2)', findFlag(2));
report('end');
`

var lines []string

func main() {
	vm := runtime.NewVM(parser.NewParser())
	std.Load(vm)
	php.Load(vm)
	rvm := vm.(*runtime.VM)

	rvm.RegisterFunction("report", func(s string) { lines = append(lines, s) })
	rvm.RegisterFunction("describe", func(s *string) string {
		if s == nil {
			return "nil"
		}
		return fmt.Sprintf("ptr(%q)", *s)
	})
	rvm.RegisterFunction("addOpt", func(a int, b *int) int {
		if b == nil {
			return a
		}
		return a + *b
	})
	rvm.RegisterFunction("half", func(f *float64) *float64 {
		if f == nil {
			return nil
		}
		h := *f / 2
		return &h
	})
	names := map[int]string{1: "ann"}
	ages := map[int]int64{1: 33}
	rvm.RegisterFunction("findName", func(id int) *string {
		if n, ok := names[id]; ok {
			return &n
		}
		return nil
	})
	rvm.RegisterFunction("findAge", func(id int) *int64 {
		if n, ok := ages[id]; ok {
			return &n
		}
		return nil
	})
	rvm.RegisterFunction("findFlag", func(id int) *bool {
		if id == 1 {
			f := false
			return &f
		}
		return nil
	})

	dir, _ := os.MkdirTemp("", "f6c17")
	defer os.RemoveAll(dir)
	file := filepath.Join(dir, "main.php")
	_ = os.WriteFile(file, []byte(script), 0o644)

	func() {
		defer func() {
			if r := recover(); r != nil {
				lines = append(lines, fmt.Sprintf("INTERPRETER PANIC: %v", r))
			}
		}()
		if _, ctl := vm.LoadAndRun(file); ctl != nil {
			lines = append(lines, fmt.Sprintf("UNCAUGHT: %v", ctl.AsString()))
		}
	}()

	want := []string{
		`describe(null) => 'nil'`,
		`describe("abc") => 'ptr("abc")'`,
		`describe("") => 'ptr("")'`,
		`addOpt(40, 2) => 42`,
		`addOpt(40, null) => 40`,
		`half(null) => NULL`,
		`half(3.0) === 1.5 => true`,
		`findName(1) => 'ann'`,
		`findAge(1) => 33`,
		`findFlag(1) => false`,
		`findName(2) => NULL`,
		`findAge(2) => NULL`,
		`findFlag(2) => NULL`,
		`end`,
	}
	ok := len(lines) == len(want)
	for i := 0; i < len(lines) || i < len(want); i++ {
		var g, w string
		if i < len(lines) {
			g = lines[i]
		}
		if i < len(want) {
			w = want[i]
		}
		mark := "ok  "
		if g != w {
			mark = "FAIL"
			ok = false
		}
		fmt.Printf("%s got %-40q want %q\n", mark, g, w)
	}
	if !ok {
		os.Exit(1)
	}
}
