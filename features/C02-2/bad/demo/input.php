<?php
function scan($words) {
    $out = "";
    foreach ($words as $w) {
        $out .= "[";
        for ($pass = 0; $pass < 2; $pass++) {
            foreach ($w as $i => $ch) {
                if ($ch == "-") {
                    continue 2;      // next pass of the same word
                }
                if ($ch == "!") {
                    break 2;         // leave the pass loop, go on with the next word
                }
                if ($ch == "#") {
                    return $out . "#";
                }
                $out .= $i . $ch;
            }
            $out .= "|";
        }
        $out .= "]";
    }
    return $out;
}
echo scan(["ab", "c-d", "e!f", "gh"]), "\n";
echo scan(["x#y", "z"]), "\n";
foreach ("héé" as $k => $c) {
    if ($k == 1) { continue; }
    echo $k, "=", $c, " ";
}
echo "\n";
$n = 0;
foreach ("abcdef" as $c) {
    if ($c == "d") { break; }
    $n++;
}
echo $n, "\n";
