<?php
// lenient percent decoding: valid escapes are decoded, malformed ones stay literal
$cases = ['a%20b+c', '100%', 'a%zz%41', '%', '%%41', 'x%4', 'ok%2', '%e4%bd%a0%e5', 'q=%41%4'];
foreach ($cases as $c) {
    echo 'urldecode    ', $c, ' => ', bin2hex(urldecode($c)), "\n";
    echo 'rawurldecode ', $c, ' => ', bin2hex(rawurldecode($c)), "\n";
}
echo "done\n";
