#!/bin/bash
# Demo for C14: urldecode/rawurldecode must be total on truncated percent escapes
# Builds the interpreter from the worktree $WT, runs input.php and compares with expected.txt.
# Exits 0 when the output matches, 1 when it differs, 2 on build failure.
export GOFLAGS=-mod=mod GOPROXY=off
WT=${WT:-/tmp/seed/wt_S4C}
HERE="$(cd "$(dirname "$0")" && pwd)"
TMP=$(mktemp -d /tmp/seed/F6C_C14_demo_XXXXXX)
trap 'rm -rf "$TMP"' EXIT
(cd "$WT" && go build -o "$TMP/origami" .) || { echo "BUILD FAILED"; exit 2; }
(cd "$HERE" && timeout -s KILL 20 "$TMP/origami" input.php) > "$TMP/out.txt" 2>&1
echo "exit status: $?" >> "$TMP/out.txt"
if diff -u "$HERE/expected.txt" "$TMP/out.txt"; then echo "DEMO PASS"; exit 0; fi
echo "DEMO FAIL"
exit 1
