package f5c17demo

// F5 C17 demo: registered Go functions / methods with sized and unsigned integer parameters
// (int8/16/32, uint, uint8/16/32/64) receive exactly the script's value, or the call fails with a
// catchable script error. No value may be silently wrapped or truncated.

import (
	"os"
	"path/filepath"
	"strconv"
	"strings"
	"testing"

	"github.com/php-any/origami/parser"
	"github.com/php-any/origami/runtime"
	"github.com/php-any/origami/std"
	"github.com/php-any/origami/std/php"
)

type Meter struct{}

func (m *Meter) Quota(n uint64) string { return "quota=" + strconv.FormatUint(n, 10) }
func (m *Meter) Level(n int8) string   { return "level=" + strconv.Itoa(int(n)) }

func run(t *testing.T, body string) string {
	t.Helper()
	vm := runtime.NewVM(parser.NewParser()).(*runtime.VM)
	std.Load(vm)
	php.Load(vm)
	var lines []string
	vm.RegisterFunction("report", func(s string) { lines = append(lines, s) })
	vm.RegisterFunction("u64", func(n uint64) string { return "u64=" + strconv.FormatUint(n, 10) })
	vm.RegisterFunction("u", func(n uint) string { return "u=" + strconv.FormatUint(uint64(n), 10) })
	vm.RegisterFunction("u8", func(n uint8) string { return "u8=" + strconv.Itoa(int(n)) })
	vm.RegisterFunction("u32", func(n uint32) string { return "u32=" + strconv.FormatUint(uint64(n), 10) })
	vm.RegisterFunction("i8", func(n int8) string { return "i8=" + strconv.Itoa(int(n)) })
	vm.RegisterFunction("i32", func(n int32) string { return "i32=" + strconv.Itoa(int(n)) })
	vm.RegisterFunction("back32", func(n uint32) uint32 { return n })
	if ctl := vm.RegisterReflectClass("Meter", &Meter{}); ctl != nil {
		t.Fatalf("register: %v", ctl)
	}
	src := "try {\n    report(" + body + ");\n} catch (\\Throwable $e) {\n    report(\"error\");\n}\n"
	f := filepath.Join(t.TempDir(), "t.zy")
	if err := os.WriteFile(f, []byte(src), 0o644); err != nil {
		t.Fatal(err)
	}
	func() {
		defer func() {
			if r := recover(); r != nil {
				lines = append(lines, "CRASH")
			}
		}()
		if _, ctl := vm.LoadAndRun(f); ctl != nil {
			lines = append(lines, "uncaught")
		}
	}()
	return strings.Join(lines, ",")
}

func TestRepresentableValuesArriveUnchanged(t *testing.T) {
	cases := [][2]string{
		{"u64(0)", "u64=0"}, {"u64(9223372036854775807)", "u64=9223372036854775807"},
		{"u(42)", "u=42"}, {"u8(255)", "u8=255"}, {"u32(4294967295)", "u32=4294967295"},
		{"i8(-128)", "i8=-128"}, {"i8(127)", "i8=127"}, {"i32(-2147483648)", "i32=-2147483648"},
		{"'' . back32(4000000000)", "4000000000"},
		{"(new Meter())->Quota(7)", "quota=7"}, {"(new Meter())->Level(-5)", "level=-5"},
	}
	for _, c := range cases {
		if got := run(t, c[0]); got != c[1] {
			t.Errorf("%s: got %q, want %q", c[0], got, c[1])
		}
	}
}

func TestOutOfRangeValuesAreRejectedNotWrapped(t *testing.T) {
	for _, call := range []string{
		"u8(256)", "u8(-1)", "u32(4294967296)", "u32(-1)", "i8(128)", "i8(-129)", "i32(2147483648)",
		"u64(-1)", "u(-1)", "u64(-9223372036854775807)", "(new Meter())->Quota(-2)", "(new Meter())->Level(300)",
	} {
		if got := run(t, call); got != "error" {
			t.Errorf("%s: Go side received %q, want a catchable script error", call, got)
		}
	}
}
