#!/bin/bash
# F5 C17 demo: sized and unsigned integer parameters of registered Go functions/methods are lossless or rejected
# Copies the harness package into $WT, runs it, removes it again.
# exit 0 = behaviour right, 1 = wrong, 2 = build/setup problem
export GOFLAGS=-mod=mod GOPROXY=off
WT=${WT:-/tmp/seed/wt_S4C}
HERE="$(cd "$(dirname "$0")" && pwd)"
PKG=f5c17demo
rm -rf "$WT/$PKG"; cp -r "$HERE/$PKG" "$WT/$PKG" || exit 2
trap 'rm -rf "$WT/$PKG"' EXIT
OUT=$(cd "$WT" && go test -vet=off -count=1 ./$PKG/ 2>&1)
echo "$OUT"
if echo "$OUT" | grep -q "^ok"; then echo "DEMO PASS"; exit 0; fi
if echo "$OUT" | grep -q -- "--- FAIL"; then echo "DEMO FAIL"; exit 1; fi
echo "DEMO: build/setup problem"; exit 2
