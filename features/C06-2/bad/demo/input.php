<?php
function show($label, $arr) { echo $label, ": ", json_encode($arr), "\n"; }

$a = [1, 2, 3, 4, 5];
$b = $a;
$r = $b->fill(0, 1, 3);
show("a", $a);
show("b", $b);
show("r", $r);
$r[0] = 99;
show("b after write to r", $b);

$b->fill(7, -2);
show("b", $b);
show("a", $a);

function zero($arr) { $arr->fill(0); return $arr; }
$c = [1, 2, 3];
$z = zero($c);
show("c", $c);
show("z", $z);

class Box { public $items = [1, 2, 3]; }
$box = new Box();
$copy = $box->items;
$copy->fill("x", 0, 2);
show("box", $box->items);
show("copy", $copy);

$row = [0, 0];
$grid = [null, null, null];
$grid->fill($row);
$grid[0][1] = 5;
$row[0] = 8;
show("grid", $grid);
show("row", $row);

$p = [1, 2, 3];
$ref = &$p[1];
$p->fill(4);
show("p", $p);
echo "ref=", $ref, "\n";
