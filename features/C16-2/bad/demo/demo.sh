#!/bin/bash
# Demo for C16: `$var < IntLiteral` fast path (VarIntLe.Strict) must survive ahead-of-time compilation.
# Builds the interpreter from the worktree $WT, interprets src/index.php, then compiles src/ with
# `compile --build`, builds the generated Go program against the worktree's packages (through a go build
# overlay, the worktree is not modified; the tool's own `go mod tidy` step needs the network and is skipped)
# and compares output + exit status of compiled vs interpreted (and with expected.txt).
# Exits 0 when identical, 1 when they differ, 2 on build failure.
export GOFLAGS=-mod=mod GOPROXY=off
WT=${WT:-/tmp/seed/wt_S4C}
HERE="$(cd "$(dirname "$0")" && pwd)"
TMP=$(mktemp -d /tmp/seed/F6C_C16_demo_XXXXXX)
trap 'rm -rf "$TMP"' EXIT
(cd "$WT" && go build -o "$TMP/origami" .) || { echo "BUILD FAILED"; exit 2; }
cp -r "$HERE/src" "$TMP/src"
(cd "$TMP/src" && timeout -s KILL 20 "$TMP/origami" index.php) > "$TMP/interp.txt" 2>&1
echo "exit status: $?" >> "$TMP/interp.txt"
(cd "$TMP/src" && "$TMP/origami" compile . --build --entry=index.php -o "$TMP/gen") > "$TMP/compile.log" 2>&1
[ -f "$TMP/gen/main.go" ] || { cat "$TMP/compile.log"; echo "COMPILE FAILED"; exit 2; }
PKG=zz_demo_f6_C16
{
  echo '{"Replace": {'
  first=1
  for f in "$TMP"/gen/*.go; do
    [ $first = 1 ] || echo ','
    first=0
    printf '  "%s/%s/%s": "%s"' "$WT" "$PKG" "$(basename "$f")" "$f"
  done
  echo '}}'
} > "$TMP/overlay.json"
(cd "$WT" && go build -overlay "$TMP/overlay.json" -o "$TMP/app" ./$PKG) || { echo "BUILD OF GENERATED PROGRAM FAILED"; exit 2; }
(cd "$TMP/src" && timeout -s KILL 20 "$TMP/app") 2>&1 | sed -e '/^goroutine /,$d' > "$TMP/compiled.txt"
echo "exit status: ${PIPESTATUS[0]}" >> "$TMP/compiled.txt"
RC=0
echo "--- interpreted vs compiled"
diff -u "$TMP/interp.txt" "$TMP/compiled.txt" || RC=1
echo "--- expected vs interpreted"
diff -u "$HERE/expected.txt" "$TMP/interp.txt" || RC=1
if [ $RC -eq 0 ]; then echo "DEMO PASS"; exit 0; fi
echo "DEMO FAIL"
exit 1
