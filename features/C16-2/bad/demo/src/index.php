<?php
// `$var < IntLiteral` in loop conditions and plain expressions
for ($i = 0; $i < 3; $i++) {
    echo "for ", $i, "\n";
}
$n = 0;
while ($n < 2) {
    $n++;
}
echo "while stopped at ", $n, "\n";
$x = 5;
echo "5 < 5: ", var_export($x < 5, true), "\n";
echo "5 <= 5: ", var_export($x <= 5, true), "\n";
$f = 4.5;
echo "4.5 < 5: ", var_export($f < 5, true), "\n";
echo "4.5 < 4: ", var_export($f < 4, true), "\n";
$s = "abc";
echo "str < 1: ", var_export($s < 1, true), "\n";
echo "done\n";
