#!/bin/bash
# F5 C16 demo: compiled-vs-interpreted differential check for app.php next to this script (exclusive ranges a..<b in loops, expressions and array slices).
# usage: bash demo.sh        (WT=<worktree> overrides the tree under test)
# exit 0: compiled binary and interpreter agree on stdout and exit status
# exit 1: they differ   exit 2: toolchain/setup problem   exit 3: compile step rejected the program
export GOFLAGS=-mod=mod GOPROXY=off
WT=${WT:-/tmp/seed/wt_S4C}
HERE=$(cd "$(dirname "$0")" && pwd)
WORK=$(mktemp -d /tmp/seed/c16demo_XXXXXX)
trap 'rm -rf "$WORK"' EXIT
SRC="$WORK/src"; OUT="$WORK/out"; BIN="$WORK/zy"
mkdir -p "$SRC" && cp "$HERE/app.php" "$SRC/app.php"

(cd "$WT" && go build -o "$BIN" .) || { echo "SETUP: building the interpreter from $WT failed"; exit 2; }

# go mod tidy cannot work offline, so the command itself ends with an error after generating the sources
"$BIN" compile "$SRC" --build --entry="$SRC/app.php" -o "$OUT" > "$WORK/compile.log" 2>&1
if ! grep -q "已生成 Go 包" "$WORK/compile.log"; then
    echo "COMPILE: program rejected by zy compile"; grep -v "^go: \|module lookup" "$WORK/compile.log" | head -20; exit 3
fi
echo "replace github.com/php-any/origami => $WT" >> "$OUT/go.mod"
cp "$WT/go.sum" "$OUT/go.sum"
(cd "$OUT" && go build -o "$WORK/app" .) > "$WORK/build.log" 2>&1 || { echo "FAIL: generated project does not build"; head -20 "$WORK/build.log"; exit 1; }

(cd "$SRC" && "$WORK/app"      > "$WORK/compiled.out"    2> "$WORK/compiled.err";    echo $? > "$WORK/compiled.rc")
(cd "$SRC" && "$BIN" app.php   > "$WORK/interpreted.out" 2> "$WORK/interpreted.err"; echo $? > "$WORK/interpreted.rc")

rc=0
if ! diff "$WORK/interpreted.out" "$WORK/compiled.out" > "$WORK/diff.txt"; then
    echo "FAIL: stdout differs ('<' interpreted, '>' compiled)"; cat "$WORK/diff.txt"; rc=1
fi
if [ "$(cat "$WORK/interpreted.rc")" != "$(cat "$WORK/compiled.rc")" ]; then
    echo "FAIL: exit status differs: interpreted=$(cat "$WORK/interpreted.rc") compiled=$(cat "$WORK/compiled.rc")"
    head -5 "$WORK/compiled.err"; rc=1
fi
[ $rc = 0 ] && echo "PASS: compiled == interpreted (exit $(cat "$WORK/interpreted.rc"), $(wc -l < "$WORK/interpreted.out") lines of output)"
exit $rc
