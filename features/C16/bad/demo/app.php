<?php
// exclusive ranges: start..<stop leaves the right endpoint out
$n = 4;
echo "asc:   ", json_encode(1..<5), "\n";
echo "var:   ", json_encode(0..<$n), "\n";
echo "desc:  ", json_encode(5..<1), "\n";
echo "empty: ", json_encode(3..<3), "\n";
echo "incl:  ", json_encode(1..5), "\n";

$a = [10, 20, 30, 40, 50];
echo "slice: ", json_encode($a[1..<3]), " ", json_encode($a[1..3]), "\n";

$sum = 0;
foreach (0..<count($a) as $i) {
    $sum += $a[$i];
}
echo "sum:   ", $sum, "\n";

function firstN(array $xs, int $k): array {
    $out = [];
    foreach (0..<$k as $i) {
        $out[] = $xs[$i] * 2;
    }
    return $out;
}
echo "fn:    ", json_encode(firstN($a, 3)), "\n";
