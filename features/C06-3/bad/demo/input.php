<?php
function show($label, $v) { echo $label, ": ", json_encode($v), "\n"; }

// a literal evaluated twice must give two independent arrays
function grid() { return [[0, 0], [0, 0]]; }
$g1 = grid();
$g2 = grid();
$g1[0][0] = 7;
show("g1", $g1);
show("g2", $g2);

// element arrays coming from variables are copied
$row = [1, 2, 3];
$t = [$row, $row];
$t[0][0] = 'x';
$t[1][] = 'y';
show("row", $row);
show("t", $t);

// element arrays coming from a function call: the function may hand out an
// array that something else still holds (static local, object property)
function defaults() {
    static $d = ['a', 'b'];
    return $d;
}
$cfg = [defaults(), 'extra'];
$cfg[0][0] = 'CHANGED';
$cfg[0][] = 'added';
show("cfg", $cfg);
show("defaults()", defaults());

class Box {
    public $items = [10, 20];
    public function items() { return $this->items; }
}
function itemsOf($b) { return $b->items; }
$box = new Box();
$wrap = [itemsOf($box)];
$wrap[0][1] = 'changed';
show("wrap", $wrap);
show("box->items", $box->items);

$keyed = array(0 => defaults(), 1 => itemsOf($box));
$keyed[0][1] = 'K';
$keyed[1][0] = 'K';
show("keyed", $keyed);
show("defaults()", defaults());
show("box->items", $box->items);
