<?php
function t($a, $b) {
    try { echo intdiv($a, $b), "\n"; } catch (\Throwable $e) { echo "caught: ", $e->getMessage(), "\n"; }
}
t(7, 2); t(-7, 2); t("9", "2"); t(8.0, 2);
t(1, 0);
t(PHP_INT_MIN, -1);
t(5, "0");
t(5, 0.0);
t(5, false);
echo "done\n";
