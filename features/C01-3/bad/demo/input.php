<?php
echo 5;
$a = 7.