<?php
function pick($n) {
    switch ($n) {
        case 1:
            return "one";
        case 2:
            return "two-first";
        case 3:
            return "three";
        case 2:
            return "two-second";
        case 4:
            return "four";
    }
    return "none";
}

for ($i = 0; $i <= 5; $i++) {
    echo $i, "=", pick($i), "\n";
}

// fall-through and default position with a repeated label
$log = "";
for ($i = 0; $i < 7; $i++) {
    switch ($i) {
        case 0:
            $log = $log . "a";
        case 5:
            $log = $log . "b";
            break;
        default:
            $log = $log . "d";
        case 1:
            $log = $log . "c";
            continue 2;
        case 5:
            $log = $log . "X";
            break;
        case 3:
            $log = $log . "e";
            break 2;
    }
    $log = $log . "|";
}
echo $log, "\n";

// non-int subjects still use loose comparison against the int labels
foreach (["2", 2.0, true, "x", null] as $v) {
    echo pick($v), "\n";
}
