// Harness for C12: one base VM and two temporary (request-level) VMs. Functions, classes and an
// interface are defined on the base VM and on temporary VM t1; then every VM is asked to resolve
// every name under its plain, fully-qualified (leading backslash) and - for classes - lower-cased
// spelling, through the VM API and through script code (function_exists / new).
// Model: visible(temp) = defined(base) + defined(temp), visible(base) = defined(base).
package main

import (
	"fmt"
	"os"
	"strings"

	"github.com/php-any/origami/data"
	"github.com/php-any/origami/parser"
	"github.com/php-any/origami/runtime"
	"github.com/php-any/origami/std"
	"github.com/php-any/origami/std/php"
)

var (
	p     *parser.Parser
	n     int
	fails int
)

func fail(format string, a ...any) {
	fails++
	fmt.Printf("  VIOLATION: "+format+"\n", a...)
}

func run(vm data.VM, code string) (res string, err string) {
	defer func() {
		if r := recover(); r != nil {
			err = fmt.Sprint(r)
		}
	}()
	n++
	var pp *parser.Parser
	if t, ok := vm.(*runtime.TempVM); ok {
		pp = t.PrepareParse(p)
	} else {
		pp = p.Clone()
	}
	prog, acl := pp.ParseString("<?php\n"+code, fmt.Sprintf("/virt/c12_%d.php", n))
	if acl != nil {
		return "", "parse: " + acl.AsString()
	}
	v, ctl := prog.GetValue(vm.CreateContext(pp.GetVariables()))
	if ctl != nil {
		if rc, ok := ctl.(data.ReturnControl); ok {
			if rv, ok := rc.ReturnValue().(data.Value); ok {
				return rv.AsString(), ""
			}
		}
		return "", "control: " + ctl.AsString()
	}
	if vv, ok := v.(data.Value); ok {
		return vv.AsString(), ""
	}
	return "", ""
}

func define(vm data.VM, label, fn, class string) {
	code := fmt.Sprintf(`
interface %[2]sContract { function id(); }
class %[2]s implements %[2]sContract { function id() { return "%[2]s@%[3]s"; } }
function %[1]s() { return "%[1]s@%[3]s"; }
`, fn, class, label)
	if _, err := run(vm, code); err != "" {
		fail("defining %s/%s on %s failed: %s", fn, class, label, err)
	}
}

// check that vm resolves (visible=true) or does not resolve fn/class defined on VM `owner`
func check(vm data.VM, label, fn, class, owner string, visible bool) {
	for _, name := range []string{fn, "\\" + fn} {
		if _, ok := vm.GetFunc(name); ok != visible {
			fail("%s.GetFunc(%q) = %v, model says %v", label, name, ok, visible)
		}
		want := map[bool]string{true: "yes", false: "no"}[visible]
		if got, err := run(vm, fmt.Sprintf(`return function_exists('%s') ? "yes" : "no";`, name)); got != want {
			fail("%s: function_exists('%s') = %q (err %q), model says %q", label, name, got, err, want)
		}
	}
	for _, name := range []string{class, "\\" + class, strings.ToLower(class)} {
		if _, ok := vm.GetClass(name); ok != visible && name[0] != '\\' {
			fail("%s.GetClass(%q) = %v, model says %v", label, name, ok, visible)
		}
		got, err := run(vm, fmt.Sprintf(`return (new %s())->id();`, name))
		if visible && got != class+"@"+owner {
			fail("%s: (new %s())->id() = %q (err %q), model says %q", label, name, got, err, class+"@"+owner)
		} else if !visible && err == "" {
			fail("%s: new %s() succeeded (%q) although %s is not defined for this VM", label, name, got, class)
		}
	}
	for _, name := range []string{class + "Contract"} {
		if _, ok := vm.GetInterface(name); ok != visible {
			fail("%s.GetInterface(%q) = %v, model says %v", label, name, ok, visible)
		}
	}
}

func main() {
	p = parser.NewParser()
	base := runtime.NewVM(p)
	std.Load(base)
	php.Load(base)
	base.SetThrowControl(func(acl data.Control) { panic("uncaught: " + acl.AsString()) })

	define(base, "base", "base_helper", "Alpha")
	t1 := runtime.NewTempVM(base)
	t2 := runtime.NewTempVM(base)
	define(t1, "t1", "req_helper", "Beta")

	fmt.Println("base definitions must be resolvable everywhere:")
	check(base, "base", "base_helper", "Alpha", "base", true)
	check(t1, "t1", "base_helper", "Alpha", "base", true)
	check(t2, "t2", "base_helper", "Alpha", "base", true)
	fmt.Println("t1's definitions must be resolvable on t1 only:")
	check(t1, "t1", "req_helper", "Beta", "t1", true)
	check(t2, "t2", "req_helper", "Beta", "t1", false)
	check(base, "base", "req_helper", "Beta", "t1", false)

	if fails > 0 {
		fmt.Printf("%d violations of the isolation model\n", fails)
		os.Exit(1)
	}
	fmt.Println("all lookups agree with the isolation model")
}
