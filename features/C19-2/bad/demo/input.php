<?php
class Item {}
class Box<T> {
    public T $value;
    public T|null $opt = null;
}
class Pair<K, V> {
    public K|V|null $either = null;
}
function attempt($label, $fn) {
    try { $fn(); echo $label, ": accepted\n"; }
    catch (\Throwable $e) { echo $label, ": rejected\n"; }
}
$i = new Box<int>();
$s = new Box<string>();
$o = new Box<Item>();
attempt('Box<int>.opt = 1', function() use ($i) { $i->opt = 1; });
attempt('Box<int>.opt = "x"', function() use ($i) { $i->opt = "x"; });
attempt('Box<int>.opt = null', function() use ($i) { $i->opt = null; });
attempt('Box<string>.opt = "x"', function() use ($s) { $s->opt = "x"; });
attempt('Box<string>.opt = 1', function() use ($s) { $s->opt = 1; });
attempt('Box<string>.opt = null', function() use ($s) { $s->opt = null; });
attempt('Box<Item>.opt = new Item', function() use ($o) { $o->opt = new Item(); });
attempt('Box<Item>.opt = 1', function() use ($o) { $o->opt = 1; });
attempt('Box<int>.opt = 2 (again)', function() use ($i) { $i->opt = 2; });
attempt('Box<int>.value = "x"', function() use ($i) { $i->value = "x"; });
attempt('Box<string>.value = "x"', function() use ($s) { $s->value = "x"; });

$p = new Pair<string, array>();
$q = new Pair<int, string>();
attempt('Pair<string,array>.either = "k"', function() use ($p) { $p->either = "k"; });
attempt('Pair<string,array>.either = [1]', function() use ($p) { $p->either = [1]; });
attempt('Pair<string,array>.either = 5', function() use ($p) { $p->either = 5; });
attempt('Pair<int,string>.either = 5', function() use ($q) { $q->either = 5; });
attempt('Pair<int,string>.either = "v"', function() use ($q) { $q->either = "v"; });
attempt('Pair<int,string>.either = [1]', function() use ($q) { $q->either = [1]; });
echo "done\n";
