package http

import (
	"fmt"
	httpsrc "net/http"
	"net/http/httptest"
	"strings"
	"testing"
)

// Registers middlewares through ServerClass.addMiddleware (the sorted-insert
// path used by $server->middleware()) and checks the order in which they run
// against the specification: ascending priority, ties in registration order.
func TestDemoF7C13(t *testing.T) {
	prios := []int{0, 5, 0, -1, 0, 1, 5}
	s := &ServerClass{source: httpsrc.NewServeMux()}
	var order []string
	for i, p := range prios {
		id := fmt.Sprintf("%d@%d", i, p)
		s.addMiddleware(middlewareEntry{priority: p, fn: func(next httpsrc.Handler) httpsrc.Handler {
			return httpsrc.HandlerFunc(func(w httpsrc.ResponseWriter, r *httpsrc.Request) {
				order = append(order, id)
				next.ServeHTTP(w, r)
			})
		}})
	}
	h := s.finalizeHandler(httpsrc.HandlerFunc(func(w httpsrc.ResponseWriter, r *httpsrc.Request) {
		order = append(order, "final")
	}))
	h.ServeHTTP(httptest.NewRecorder(), httptest.NewRequest("GET", "/", nil))
	got := strings.Join(order, " ")
	want := "3@-1 0@0 2@0 4@0 5@1 1@5 6@5 final"
	fmt.Println("got :", got)
	fmt.Println("want:", want)
	if got != want {
		t.Fatalf("middleware order differs from ascending priority / registration order on ties")
	}
}
