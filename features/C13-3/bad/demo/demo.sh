#!/bin/bash
# Demo for C13: server middlewares are kept sorted at registration (binary insert) instead of
# being copied and stably sorted for every route.
# Adds an in-package Go test to std/net/http of the worktree $WT through a go build overlay
# (the worktree itself is not modified) and runs it.
# Exits 0 when the behaviour is correct, 1 when it is wrong, 2 on build failure.
export GOFLAGS=-mod=mod GOPROXY=off
WT=${WT:-/tmp/seed/wt_S4C}
HERE="$(cd "$(dirname "$0")" && pwd)"
TMP=$(mktemp -d /tmp/seed/F7C_C13_demo_XXXXXX)
trap 'rm -rf "$TMP"' EXIT
F=zz_demo_f7_c13_test.go
printf '{"Replace": {"%s/std/net/http/%s": "%s/harness/%s"}}\n' "$WT" "$F" "$HERE" "$F" > "$TMP/overlay.json"
(cd "$WT" && go test -vet=off -overlay "$TMP/overlay.json" -c -o "$TMP/demo.test" ./std/net/http) || { echo "BUILD FAILED"; exit 2; }
(cd "$TMP" && timeout -s KILL 20 ./demo.test -test.run '^TestDemoF7C13$' -test.v)
RC=$?
echo "test exit status: $RC"
if [ $RC -eq 0 ]; then echo "DEMO PASS"; exit 0; fi
echo "DEMO FAIL"
exit 1
