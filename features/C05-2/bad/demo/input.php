<?php
class AppError extends Exception {}

function first($x) {
    try {
        if ($x == 1) { throw new AppError("app"); }
        if ($x == 2) { throw new Exception("plain"); }
        if ($x == 3) { $z = 0; return intdiv(1, $z); }
        return "ret" . $x;
    } catch (AppError $e) {
        return "AppError:" . $e->getMessage();
    } catch {
        return "catch-all";
    } finally {
        echo "[finally ", $x, "]";
    }
    return "after";
}
for ($i = 0; $i < 4; $i++) {
    echo first($i), "\n";
}

function loop() {
    $out = "";
    for ($i = 0; $i < 5; $i++) {
        try {
            if ($i == 1) { continue; }
            if ($i == 3) { break; }
            if ($i == 2) { throw new Exception("two"); }
            $out .= "body" . $i . " ";
        } catch {
            $out .= "caught" . $i . " ";
        } finally {
            $out .= "fin" . $i . " ";
        }
        $out .= "end" . $i . " ";
    }
    return $out;
}
echo loop(), "\n";

try {
    try {
        throw new AppError("inner");
    } catch {
        echo "rethrow ";
        throw new Exception("second");
    } finally {
        echo "inner-finally ";
    }
} catch (Exception $e) {
    echo "outer:", $e->getMessage(), "\n";
}
