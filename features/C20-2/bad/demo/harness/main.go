package main

import (
	"fmt"
	"os"
	"path/filepath"
	"strings"

	"github.com/php-any/origami/parser"
	"github.com/php-any/origami/runtime"
	"github.com/php-any/origami/std"
	"github.com/php-any/origami/std/php"
)

const progA = `<?php
class Greeter {
    public function hi() { return "hi from program A"; }
}
class Report { const KIND = "A"; }
$g = new greeter();            // case-insensitive class name, resolved through the index
report('A: ' . $g->hi());
report('A: class_exists(GREETER) = ' . var_export(class_exists('GREETER', false), true));
`

const progB = `<?php
class REPORT { const KIND = "B"; }
report('B: class_exists(Greeter) = ' . var_export(class_exists('Greeter', false), true));
report('B: class_exists(greeter) = ' . var_export(class_exists('greeter', false), true));
report('B: class_exists(GREETER) = ' . var_export(class_exists('GREETER', false), true));
report('B: report::KIND = ' . report::KIND);
`

// run executes src on a freshly created VM and returns what the script reported.
func run(dir, name, src string) []string {
	var lines []string
	vm := runtime.NewVM(parser.NewParser())
	std.Load(vm)
	php.Load(vm)
	vm.(*runtime.VM).RegisterFunction("report", func(s string) { lines = append(lines, s) })
	file := filepath.Join(dir, name)
	_ = os.WriteFile(file, []byte(src), 0o644)
	func() {
		defer func() {
			if r := recover(); r != nil {
				lines = append(lines, fmt.Sprintf("PANIC: %v", r))
			}
		}()
		if _, ctl := vm.LoadAndRun(file); ctl != nil {
			lines = append(lines, "UNCAUGHT: "+ctl.AsString())
		}
	}()
	return lines
}

func main() {
	dir, _ := os.MkdirTemp("", "f6c20")
	defer os.RemoveAll(dir)

	alone := run(dir, "b_alone.php", progB) // B on a fresh VM, nothing ran before
	a := run(dir, "a.php", progA)
	after := run(dir, "b_after.php", progB) // B on another fresh VM, after A ran on its own VM

	fmt.Println("program A:\n  " + strings.Join(a, "\n  "))
	fmt.Println("program B alone:\n  " + strings.Join(alone, "\n  "))
	fmt.Println("program B after A:\n  " + strings.Join(after, "\n  "))

	wantA := []string{"A: hi from program A", "A: class_exists(GREETER) = true"}
	wantB := []string{
		"B: class_exists(Greeter) = false",
		"B: class_exists(greeter) = false",
		"B: class_exists(GREETER) = false",
		"B: report::KIND = B",
	}
	ok := true
	if strings.Join(a, "\n") != strings.Join(wantA, "\n") {
		fmt.Println("FAIL: program A output differs from expected")
		ok = false
	}
	if strings.Join(alone, "\n") != strings.Join(wantB, "\n") {
		fmt.Println("FAIL: program B (alone) output differs from expected")
		ok = false
	}
	if strings.Join(after, "\n") != strings.Join(alone, "\n") {
		fmt.Println("FAIL: program B behaves differently after program A ran on another VM")
		ok = false
	}
	if !ok {
		os.Exit(1)
	}
	fmt.Println("OK: B is unaffected by the earlier run")
}
