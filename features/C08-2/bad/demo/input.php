<?php
// `$this like T` inside a method must agree with `$obj like T` from outside:
// the object provides, itself or by inheritance, every method T declares (same parameter count)
interface Shape { function area(); function name($x); }
interface Named { function name($x); }
class Drawable { function area() { return 0; } function draw($a, $b) { return 1; } }

class Base {
    function area() { return 1; }
    function isShape() { return $this like Shape ? "yes" : "no"; }
    function isNamed() { return $this like Named ? "yes" : "no"; }
    function isDrawable() { return $this like Drawable ? "yes" : "no"; }
}
class Mid extends Base {
    function name($x) { return "mid"; }
}
class Leaf extends Mid {
    function draw($a, $b) { return 2; }
    function selfCheck() { return $this like Shape ? "yes" : "no"; }
}
class Other extends Base {
    function name() { return "wrong arity"; }
}

foreach ([new Base(), new Mid(), new Leaf(), new Other()] as $o) {
    echo get_class($o), ": outside Shape=", ($o like Shape ? "yes" : "no"), " inside Shape=", $o->isShape(),
        " | outside Named=", ($o like Named ? "yes" : "no"), " inside Named=", $o->isNamed(),
        " | outside Drawable=", ($o like Drawable ? "yes" : "no"), " inside Drawable=", $o->isDrawable(), "\n";
}
echo "Leaf selfCheck: ", (new Leaf())->selfCheck(), "\n";
