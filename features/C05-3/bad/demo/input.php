<?php
class MyEx extends Exception {}

function viaReturn() {
    try {
        echo "try-return\n";
        return "r";
    } finally {
        echo "finally-return\n";
    }
}
echo viaReturn(), "\n";

function viaReturnWithCatch($throw) {
    try {
        if ($throw) {
            throw new MyEx("boom");
        }
        return "no-throw";
    } catch (MyEx $e) {
        return "caught " . $e->getMessage();
    } finally {
        echo "finally-catch\n";
    }
}
echo viaReturnWithCatch(false), "\n";
echo viaReturnWithCatch(true), "\n";

for ($i = 0; $i < 4; $i++) {
    try {
        if ($i == 1) {
            continue;
        }
        if ($i == 3) {
            break;
        }
        echo "body ", $i, "\n";
    } catch (Exception $e) {
        echo "never\n";
    } finally {
        echo "finally-loop ", $i, "\n";
    }
}

function uncaughtThroughFinally() {
    try {
        throw new MyEx("inner");
    } finally {
        echo "finally-nocatch\n";
    }
}
try {
    uncaughtThroughFinally();
} catch (Exception $e) {
    echo "outer caught ", $e->getMessage(), "\n";
}

function overrideInFinally() {
    foreach ([1, 2] as $x) {
        try {
            return "from-try";
        } finally {
            return "from-finally";
        }
    }
}
echo overrideInFinally(), "\n";

function goPanic() {
    try {
        $a = [1];
        return intdiv(1, 0);
    } catch (\Throwable $e) {
        echo "caught runtime error\n";
    } finally {
        echo "finally-runtime\n";
    }
    return "after";
}
echo goPanic(), "\n";
