<?php
class MyEx extends Exception {}

function run($mode) {
    echo "[$mode] ";
    try {
        try {
            echo "try ";
            if ($mode == "throw") { throw new MyEx("x"); }
            if ($mode == "return") { return "returned"; }
        } catch (MyEx $e) {
            echo "catch ";
        } else {
            echo "else ";
            if ($mode == "else-throw") { throw new MyEx("from else"); }
            if ($mode == "else-return") { return "else-returned"; }
            if ($mode == "else-panic") { str_repeat("ab", PHP_INT_MAX); }
        } finally {
            echo "finally ";
        }
    } catch (\Throwable $e) {
        echo "outer-caught ";
    }
    return "end";
}

foreach (["ok", "throw", "return", "else-throw", "else-return", "else-panic"] as $m) {
    echo run($m), "\n";
}
