<?php
class Box<T> {
    public T $value;
    public $tag = "";
}
class Pair<K, V> {
    public K $first;
    public V $second;
}
function tryset($label, $obj, $prop, $v) {
    try {
        $obj->$prop = $v;
        echo $label, ": accepted\n";
    } catch (\Throwable $e) {
        echo $label, ": rejected\n";
    }
}
$bi = new Box<int>();
$bs = new Box<string>();
tryset("Box<int>.value = 1", $bi, "value", 1);
tryset("Box<int>.value = 'x'", $bi, "value", "x");
tryset("Box<string>.value = 'x'", $bs, "value", "x");
tryset("Box<string>.value = 1", $bs, "value", 1);
$bi2 = new Box<int>();
tryset("second Box<int>.value = 2", $bi2, "value", 2);
tryset("second Box<int>.value = 'y'", $bi2, "value", "y");
$p1 = new Pair<int, string>();
$p2 = new Pair<string, int>();
tryset("Pair<int,string>.first = 1", $p1, "first", 1);
tryset("Pair<int,string>.second = 1", $p1, "second", 1);
tryset("Pair<string,int>.first = 1", $p2, "first", 1);
tryset("Pair<string,int>.second = 1", $p2, "second", 1);
tryset("Box<int>.tag = 's'", $bi, "tag", "s");
