#!/bin/bash
# Demo for C19: substituted property table memoised per instantiation signature on the generic class template
# Builds the interpreter from the worktree $WT, runs input.php and compares with expected.txt.
# Exits 0 when the output matches, 1 when it differs, 2 on build failure.
export GOFLAGS=-mod=mod GOPROXY=off
WT=${WT:-/tmp/seed/wt_S4C}
HERE="$(cd "$(dirname "$0")" && pwd)"
TMP=$(mktemp -d /tmp/seed/F7C_C19_demo_XXXXXX)
trap 'rm -rf "$TMP"' EXIT
(cd "$WT" && go build -o "$TMP/origami" .) || { echo "BUILD FAILED"; exit 2; }
(cd "$HERE" && timeout -s KILL 20 "$TMP/origami" input.php) > "$TMP/out.txt" 2>&1
echo "exit status: $?" >> "$TMP/out.txt"
if diff -u "$HERE/expected.txt" "$TMP/out.txt"; then echo "DEMO PASS"; exit 0; fi
echo "DEMO FAIL"
exit 1
