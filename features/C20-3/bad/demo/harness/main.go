package main

import (
	"fmt"
	"os"
	"sort"
	"strings"

	"github.com/php-any/origami/parser"
	"github.com/php-any/origami/runtime"
	"github.com/php-any/origami/std"
	"github.com/php-any/origami/std/php"
)

// Lists the functions and classes of freshly created VMs through
// VM.AllFuncs / VM.AllClasses (used by `zy compile` and the pseudocode
// generator, so their order reaches generated output). The listing must be
// sorted by name and identical for every fresh VM.
func listing() (funcs, classes []string) {
	p := parser.NewParser()
	vm := runtime.NewVM(p)
	std.Load(vm)
	php.Load(vm)
	v := vm.(*runtime.VM)
	for _, f := range v.AllFuncs() {
		funcs = append(funcs, f.GetName())
	}
	for _, c := range v.AllClasses() {
		classes = append(classes, c.GetName())
	}
	return
}

func main() {
	bad := false
	var firstF, firstC string
	for run := 0; run < 5; run++ {
		funcs, classes := listing()
		if run == 0 {
			fmt.Printf("%d functions, first: %v\n", len(funcs), funcs[:4])
			fmt.Printf("%d classes, first: %v\n", len(classes), classes[:4])
		}
		if !sort.StringsAreSorted(funcs) {
			fmt.Printf("run %d: AllFuncs() is not sorted by name\n", run)
			bad = true
		}
		if !sort.StringsAreSorted(classes) {
			fmt.Printf("run %d: AllClasses() is not sorted by name\n", run)
			bad = true
		}
		f, c := strings.Join(funcs, ","), strings.Join(classes, ",")
		if run == 0 {
			firstF, firstC = f, c
		} else if f != firstF || c != firstC {
			fmt.Printf("run %d: listing differs from the first fresh VM's listing\n", run)
			bad = true
		}
	}
	if bad {
		fmt.Println("WRONG: listing exposes Go map iteration order")
		os.Exit(1)
	}
	fmt.Println("listings sorted and identical across 5 fresh VMs")
}
