<?php
// F5 C20 demo: the new listing builtin ini_get_all() must enumerate the settings in a fixed
// (name-sorted) order on every run; it is built from Go maps, whose iteration order is random.
ini_set('precision', '10');
ini_set('my.custom_flag', 'on');
$all = ini_get_all();
foreach ($all as $k => $v) {
    echo $k, "=", $v, "\n";
}
echo json_encode(array_keys($all)), "\n";
