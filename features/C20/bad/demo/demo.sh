#!/bin/bash
# F5 C20 demo: ini_get_all() output must be byte-identical on every run (same program, same inputs).
# Builds the interpreter from $WT, runs input.php 12 times in fresh processes and compares every
# output with expected.txt. Exits 0 when all runs match, 1 when any run differs, 2 on build failure.
export GOFLAGS=-mod=mod GOPROXY=off
unset ORIGAMI_PHPT_INI
WT=${WT:-/tmp/seed/wt_S4C}
HERE="$(cd "$(dirname "$0")" && pwd)"
BIN=$(mktemp /tmp/seed/origami_C20_demo_XXXXXX)
trap 'rm -f "$BIN"' EXIT
(cd "$WT" && go build -o "$BIN" .) || { echo "BUILD FAILED"; exit 2; }
BAD=0
for i in $(seq 1 12); do
  OUT=$( (cd "$HERE" && timeout -s KILL 10 "$BIN" input.php) 2>&1 )
  if [ "$OUT" != "$(cat "$HERE/expected.txt")" ]; then
    BAD=$((BAD+1))
    if [ $BAD -eq 1 ]; then echo "run $i differs from expected.txt:"; diff <(echo "$OUT") "$HERE/expected.txt" | head -20; fi
  fi
done
if [ $BAD -eq 0 ]; then echo "DEMO PASS: 12/12 runs identical to expected.txt"; exit 0; fi
echo "DEMO FAIL: $BAD of 12 runs differ from expected.txt"
exit 1
