// Harness for C10: the class-alias registry of the VM (AddClassAlias / GetClassAlias / ClassAliases,
// and GetClass resolving an alias) is used by several goroutines at once, the way two requests
// calling class_alias() and instantiating aliased classes would. Built with -race: any unlocked
// access is reported by the race detector (exit 66) or kills the process with
// "concurrent map read and map write". Afterwards the registry must look like some sequential
// order of the calls: every successful registration visible, every duplicate rejected for all but one.
package main

import (
	"fmt"
	"os"
	"sync"
	"sync/atomic"

	"github.com/php-any/origami/data"
	"github.com/php-any/origami/parser"
	"github.com/php-any/origami/runtime"
)

type stubClass struct {
	data.ClassStmt
	name string
}

func (s *stubClass) GetName() string         { return s.name }
func (s *stubClass) GetFrom() data.From      { return nil }
func (s *stubClass) GetExtend() *string      { return nil }
func (s *stubClass) GetImplements() []string { return nil }

func main() {
	vm := runtime.NewVM(parser.NewParser())
	reg, ok := vm.(data.ClassAliasRegistry)
	if !ok {
		fmt.Println("VM does not implement data.ClassAliasRegistry")
		os.Exit(1)
	}
	const classes, writers, readers, perWriter = 16, 4, 4, 200
	for i := 0; i < classes; i++ {
		if acl := vm.AddClass(&stubClass{name: fmt.Sprintf("Model%d", i)}); acl != nil {
			panic(acl.AsString())
		}
	}

	var wg sync.WaitGroup
	var stop atomic.Bool
	var okAdds, dupWins atomic.Int64
	for w := 0; w < writers; w++ {
		w := w
		wg.Add(1)
		go func() {
			defer wg.Done()
			for i := 0; i < perWriter; i++ {
				// own alias: must succeed
				if acl := reg.AddClassAlias(fmt.Sprintf("Alias_%d_%d", w, i), fmt.Sprintf("Model%d", i%classes)); acl == nil {
					okAdds.Add(1)
				}
				// contended alias: exactly one writer may win
				if acl := reg.AddClassAlias(fmt.Sprintf("Shared_%d", i), fmt.Sprintf("Model%d", w)); acl == nil {
					dupWins.Add(1)
				}
			}
		}()
	}
	var rwg sync.WaitGroup
	var lookups atomic.Int64
	for r := 0; r < readers; r++ {
		r := r
		rwg.Add(1)
		go func() {
			defer rwg.Done()
			for i := 0; !stop.Load(); i++ {
				name := fmt.Sprintf("Alias_%d_%d", r%writers, i%perWriter)
				if target, ok := reg.GetClassAlias(name); ok {
					if c, found := vm.GetClass(name); !found || c.GetName() != target {
						fmt.Printf("alias %s -> %s registered but GetClass gives %v\n", name, target, found)
						os.Exit(1)
					}
				}
				lookups.Add(1)
			}
		}()
	}
	wg.Wait()
	stop.Store(true)
	rwg.Wait()

	fail := false
	if okAdds.Load() != writers*perWriter {
		fmt.Printf("own aliases accepted: %d, want %d\n", okAdds.Load(), writers*perWriter)
		fail = true
	}
	if dupWins.Load() != perWriter {
		fmt.Printf("contended aliases accepted: %d, want exactly %d (one winner each)\n", dupWins.Load(), perWriter)
		fail = true
	}
	if n := len(reg.ClassAliases()); n != writers*perWriter+perWriter {
		fmt.Printf("ClassAliases() lists %d, want %d\n", n, writers*perWriter+perWriter)
		fail = true
	}
	for w := 0; w < writers; w++ {
		for i := 0; i < perWriter; i++ {
			name := fmt.Sprintf("Alias_%d_%d", w, i)
			if c, found := vm.GetClass(name); !found || c.GetName() != fmt.Sprintf("Model%d", i%classes) {
				fmt.Printf("registered alias %s does not resolve\n", name)
				fail = true
			}
		}
	}
	fmt.Printf("%d registrations, %d concurrent lookups, consistent=%v\n", okAdds.Load()+dupWins.Load(), lookups.Load(), !fail)
	if fail {
		os.Exit(1)
	}
}
