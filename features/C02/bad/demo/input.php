<?php
// plain do-until
$i = 0;
do { $i++; echo $i, " "; } until ($i >= 3);
echo "| i=$i\n";

// continue goes to the until-condition
$i = 0;
do {
    $i++;
    if ($i == 3) { continue; }
    echo $i, " ";
} until ($i >= 3);
echo "| i=$i\n";

// break 2 / continue 2 out of a do-until nested in a for
for ($k = 0; $k < 3; $k++) {
    $j = 0;
    do {
        $j++;
        if ($k == 0 && $j == 2) { continue 2; }
        if ($k == 1 && $j == 2) { break 2; }
        echo "k$k", "j$j ";
    } until ($j >= 3);
    echo "end$k ";
}
echo "| k=$k\n";

// return from inside
function first_even($n) {
    do {
        if ($n % 2 == 0) { return $n; }
        $n++;
    } until ($n > 100);
    return -1;
}
echo first_even(7), "\n";
