<?php
$a = <<<'TXT'
    alpha
  x
    TXT;
echo $a, "|\n";
