// Harness for C10: concurrent case-insensitive class lookups racing with the first build of
// the VM's folded-name index and with concurrent AddClass calls.
// Exit 0: every lookup of a registered class succeeded and no data race / runtime fault occurred.
package main

import (
	"fmt"
	"os"
	"strings"
	"sync"
	"sync/atomic"

	"github.com/php-any/origami/data"
	"github.com/php-any/origami/parser"
	"github.com/php-any/origami/runtime"
)

const (
	rounds   = 150
	nClasses = 40
	nReaders = 6
	nLate    = 10
)

// defineClasses parses a source that declares the given classes on a scratch VM and returns the statements.
func defineClasses(names []string) []data.ClassStmt {
	p := parser.NewParser()
	vm := runtime.NewVM(p)
	var src strings.Builder
	src.WriteString("<?php\n")
	for _, n := range names {
		fmt.Fprintf(&src, "class %s {}\n", n)
	}
	if _, acl := p.ParseString(src.String(), "/tmp/c10_demo_fixture.php"); acl != nil {
		fmt.Println("fixture parse failed:", acl)
		os.Exit(2)
	}
	out := make([]data.ClassStmt, 0, len(names))
	for _, n := range names {
		c, ok := vm.GetClass(n)
		if !ok {
			fmt.Println("fixture class missing after parse:", n)
			os.Exit(2)
		}
		out = append(out, c)
	}
	return out
}

func main() {
	var base, late []string
	for i := 0; i < nClasses; i++ {
		base = append(base, fmt.Sprintf("OrderItem%02d", i))
	}
	for i := 0; i < nLate; i++ {
		late = append(late, fmt.Sprintf("LateThing%02d", i))
	}
	baseStmts := defineClasses(base)
	lateStmts := defineClasses(late)

	var misses, wrong atomic.Int64
	for r := 0; r < rounds; r++ {
		vm := runtime.NewVM(parser.NewParser())
		for _, c := range baseStmts {
			if acl := vm.AddClass(c); acl != nil {
				fmt.Println("AddClass failed:", acl)
				os.Exit(2)
			}
		}
		start := make(chan struct{})
		var wg sync.WaitGroup
		for g := 0; g < nReaders; g++ {
			wg.Add(1)
			go func(g int) {
				defer wg.Done()
				<-start
				for k := 0; k < nClasses; k++ {
					name := base[(k+g*7)%nClasses]
					// the first lookups on a fresh VM are the case-insensitive ones
					for _, q := range []string{strings.ToLower(name), strings.ToUpper(name), name} {
						c, ok := vm.GetClass(q)
						if !ok {
							misses.Add(1)
						} else if c.GetName() != name {
							wrong.Add(1)
						}
					}
				}
			}(g)
		}
		wg.Add(1)
		go func() {
			defer wg.Done()
			<-start
			for i, c := range lateStmts {
				if acl := vm.AddClass(c); acl != nil {
					wrong.Add(1)
				}
				// a registration that reported success is visible to every later lookup, in any case
				if got, ok := vm.GetClass(strings.ToLower(late[i])); !ok || got.GetName() != late[i] {
					misses.Add(1)
				}
			}
		}()
		close(start)
		wg.Wait()
	}
	fmt.Printf("rounds=%d misses=%d wrong=%d\n", rounds, misses.Load(), wrong.Load())
	if misses.Load() != 0 || wrong.Load() != 0 {
		fmt.Println("FAIL: a registered class was not found (or the wrong one was returned)")
		os.Exit(1)
	}
	fmt.Println("OK")
}
