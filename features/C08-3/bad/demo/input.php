<?php
interface Shape {}
interface Solid extends Shape {}
interface Named {}
class Base implements Named {}
class Cube extends Base implements Solid {}
class Other {}

function yn($b) { return $b ? "yes" : "no"; }

// one instanceof site, dynamic right-hand side: the answer depends on BOTH the object's class and the type asked for
function check($o, $types) {
    $out = [];
    foreach ($types as $t) {
        $out[] = $t . "=" . yn($o instanceof $t);
    }
    return implode(" ", $out);
}

$types = ["Cube", "Other", "Base", "Shape", "Other", "Solid", "Named", "Other", "Cube"];
echo "cube : ", check(new Cube(), $types), "\n";
echo "other: ", check(new Other(), $types), "\n";
echo "base : ", check(new Base(), $types), "\n";

// static right-hand side in a loop over mixed objects (the case the cache is for)
$objs = [new Cube(), new Cube(), new Other(), new Base(), new Cube()];
$line = [];
foreach ($objs as $o) {
    $line[] = yn($o instanceof Shape) . "/" . yn($o instanceof Named);
}
echo "loop : ", implode(" ", $line), "\n";
