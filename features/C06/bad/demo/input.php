<?php
$a = [0, 1, 2, 3, 4, 5, 6, 7, 8, 9, 10, 11, 12, 13, 14, 15, 16, 17, 18, 19, 20, 21, 22, 23];
$before = json_encode($a);

// shuffle a copy: the original keeps its order
$b = $a;
shuffle($b);
echo "copy shuffled, original intact: ", (json_encode($a) === $before ? "yes" : "NO"), "\n";

// shuffle the original: the copy taken before keeps its order
$c = $a;
shuffle($a);
echo "original shuffled, earlier copy intact: ", (json_encode($c) === $before ? "yes" : "NO"), "\n";

// by-value parameter
function mix($arr) { shuffle($arr); return count($arr); }
$d = $c;
echo mix($d), " ";
echo "argument intact: ", (json_encode($d) === $before ? "yes" : "NO"), "\n";

// it is a permutation, re-indexed from 0
$s = $b; sort($s);
echo "permutation: ", (json_encode($s) === $before ? "yes" : "NO"), ", reordered: ", (json_encode($b) === $before ? "NO" : "yes"), "\n";
