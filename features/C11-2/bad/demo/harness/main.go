// Harness for C11: a server whose route handler is a controller object
// ($server->get("/user", new ShowUser()); the object's handle($request, $response) runs per request).
// Every response must equal the response the same request gets when it is served alone by a
// freshly built server - one after the other and under parallel load.
package main

import (
	"fmt"
	"net/http"
	"net/http/httptest"
	"os"
	"path/filepath"
	"sync"
	"sync/atomic"

	"github.com/php-any/origami/data"
	"github.com/php-any/origami/parser"
	"github.com/php-any/origami/runtime"
	"github.com/php-any/origami/std"
	nethttp "github.com/php-any/origami/std/net/http"
	"github.com/php-any/origami/std/php"
)

const script = `<?php
use Net\Http\Server;

class ShowUser {
    public $prefix = "user";
    public function handle($request, $response) {
        $id = $request->query()->id;
        if ($request->query()->debug == "1") {
            $level = "verbose";
            $extra = "+trace";
        }
        if (!isset($level)) {
            $level = "normal";
        }
        if (!isset($extra)) {
            $extra = "";
        }
        $sum = 0;
        for ($k = 1; $k <= 20; $k = $k + 1) { $sum = $sum + $k; }
        $response->write($this->prefix . ":" . $id . ":" . $sum . "|" . $level . $extra . "|again:" . $request->query()->id);
    }
}

function mk() {
    $server = new Server("127.0.0.1", 0);
    $server->get("/user", new ShowUser());
    return $server;
}
`

func buildMux() *http.ServeMux {
	dir, _ := os.MkdirTemp("", "c11demo")
	path := filepath.Join(dir, "srv.php")
	if err := os.WriteFile(path, []byte(script), 0o644); err != nil {
		panic(err)
	}
	p := parser.NewParser()
	vm := runtime.NewVM(p)
	std.Load(vm)
	php.Load(vm)
	nethttp.Load(vm)
	if _, acl := vm.LoadAndRun(path); acl != nil {
		panic(acl.AsString())
	}
	fn, ok := vm.GetFunc("mk")
	if !ok {
		panic("mk not found")
	}
	v, acl := fn.Call(vm.CreateContext(fn.GetVariables()))
	if acl != nil {
		panic(acl.AsString())
	}
	cv, ok := v.(*data.ClassValue)
	if !ok {
		panic(fmt.Sprintf("mk() returned %T", v))
	}
	src, ok := cv.Class.(interface{ GetSource() any })
	if !ok {
		panic("server class has no GetSource")
	}
	return src.GetSource().(*http.ServeMux)
}

func serve(h http.Handler, url string) (body string) {
	rec := httptest.NewRecorder()
	defer func() {
		if r := recover(); r != nil {
			body = fmt.Sprintf("PANIC: %v", r)
		}
	}()
	h.ServeHTTP(rec, httptest.NewRequest("GET", url, nil))
	return rec.Body.String()
}

// alone: the response of url on a server that has never served anything else
func alone(url string) string { return serve(buildMux(), url) }

func main() {
	fail := false
	mux := buildMux()

	// one after the other
	for _, url := range []string{"/user?id=A&debug=1", "/user?id=B", "/user?id=C&debug=1", "/user?id=D"} {
		got, want := serve(mux, url), alone(url)
		status := "ok"
		if got != want {
			status = "DIFFERS"
			fail = true
		}
		fmt.Printf("sequential %-22s %s\n    served: %s\n    alone : %s\n", url, status, got, want)
	}

	// parallel load
	const workers, perWorker = 8, 150
	wantPlain := func(id string) string { return "user:" + id + ":210|normal|again:" + id }
	wantDebug := func(id string) string { return "user:" + id + ":210|verbose+trace|again:" + id }
	var bad atomic.Int64
	var first sync.Once
	var wg sync.WaitGroup
	mux2 := buildMux()
	for w := 0; w < workers; w++ {
		w := w
		wg.Add(1)
		go func() {
			defer wg.Done()
			for i := 0; i < perWorker; i++ {
				id := fmt.Sprintf("u%d-%d", w, i)
				url, want := "/user?id="+id, wantPlain(id)
				if (w+i)%3 == 0 {
					url, want = url+"&debug=1", wantDebug(id)
				}
				if got := serve(mux2, url); got != want {
					bad.Add(1)
					first.Do(func() { fmt.Printf("parallel %s\n    served: %.200s\n    alone : %s\n", url, got, want) })
				}
			}
		}()
	}
	wg.Wait()
	fmt.Printf("%d parallel requests, %d with a body different from the one produced alone\n", workers*perWorker, bad.Load())
	if fail || bad.Load() > 0 {
		os.Exit(1)
	}
}
