package main

import (
	"fmt"
	"os"

	"github.com/php-any/origami/std/protowire"
	pw "google.golang.org/protobuf/encoding/protowire"
)

// Parses packed fixed32 / fixed64 fields whose payload length is not a
// multiple of the element size. Such a payload is malformed (the reference
// decoder fails on the trailing partial element), so the parser must return
// an error and must not report success while dropping the trailing bytes.
func main() {
	bad := 0
	check := func(name string, elem int32, payload []byte, wantOK bool, wantLen int) {
		msg := pw.AppendTag(nil, 8, pw.BytesType)
		msg = pw.AppendBytes(msg, payload)
		opts := &protowire.ParseOptions{
			PackedFields:      map[int32]bool{8: true},
			PackedElementType: map[int32]int32{8: elem},
		}
		fields, err := protowire.ParseRawFields(msg, opts)
		ok := err == nil
		n := -1
		if ok && len(fields) == 1 {
			switch v := fields[0].Value.(type) {
			case []uint32:
				n = len(v)
			case []uint64:
				n = len(v)
			}
		}
		status := "ok"
		if ok != wantOK || (ok && n != wantLen) {
			status = "WRONG"
			bad++
		}
		fmt.Printf("%-28s payload=%2d bytes accepted=%-5v elements=%2d err=%v  [%s]\n", name, len(payload), ok, n, err, status)
	}
	b := func(n int) []byte {
		p := make([]byte, n)
		for i := range p {
			p[i] = byte(i + 1)
		}
		return p
	}
	check("fixed32 well-formed", protowire.WireFixed32, b(8), true, 2)
	check("fixed64 well-formed", protowire.WireFixed64, b(16), true, 2)
	check("fixed32 empty", protowire.WireFixed32, nil, true, 0)
	check("fixed32 too short", protowire.WireFixed32, b(3), false, 0)
	check("fixed64 too short", protowire.WireFixed64, b(7), false, 0)
	check("fixed32 trailing 2 bytes", protowire.WireFixed32, b(6), false, 0)
	check("fixed32 trailing 1 byte", protowire.WireFixed32, b(9), false, 0)
	check("fixed64 trailing 4 bytes", protowire.WireFixed64, b(12), false, 0)
	check("varint truncated element", protowire.WireVarint, []byte{1, 2, 0x80}, false, 0)
	if bad > 0 {
		fmt.Println("malformed packed payload accepted (trailing bytes silently dropped)")
		os.Exit(1)
	}
}
