package main

import (
	"fmt"
	"os"
	"path/filepath"

	"github.com/php-any/origami/parser"
	"github.com/php-any/origami/runtime"
	"github.com/php-any/origami/std"
	"github.com/php-any/origami/std/php"
)

// Level is a named integer type, the usual shape of a Go enum.
type Level int

// Name is a named string type.
type Name string

var got []string

func record(format string, a ...interface{}) { got = append(got, fmt.Sprintf(format, a...)) }

const script = `<?php
echo "plain=", plain(41, "x", 1.5, true), "\n";
echo "wide=", wide(9007199254740993), "\n";
echo "named=", named("bob"), "\n";
echo "level=", level(3), "\n";
try {
    level("abc");
    echo "no error\n";
} catch (\Throwable $e) {
    echo "caught\n";
}
echo "done\n";
`

func main() {
	dir, err := os.MkdirTemp("", "f7c17")
	if err != nil {
		fmt.Println(err)
		os.Exit(2)
	}
	defer os.RemoveAll(dir)
	file := filepath.Join(dir, "input.php")
	if err := os.WriteFile(file, []byte(script), 0o644); err != nil {
		fmt.Println(err)
		os.Exit(2)
	}

	p := parser.NewParser()
	vm := runtime.NewVM(p)
	std.Load(vm)
	php.Load(vm)
	v := vm.(*runtime.VM)
	v.RegisterFunction("plain", func(i int, s string, f float64, b bool) int {
		record("plain(%d,%q,%v,%v)", i, s, f, b)
		return i + 1
	})
	v.RegisterFunction("wide", func(i int64) int64 {
		record("wide(%d)", i)
		return i
	})
	v.RegisterFunction("named", func(n Name) string {
		record("named(%q)", string(n))
		return "hello " + string(n)
	})
	v.RegisterFunction("level", func(l Level) int {
		record("level(%d)", int(l))
		return int(l) * 10
	})

	crashed := false
	func() {
		defer func() {
			if r := recover(); r != nil {
				crashed = true
				fmt.Printf("\nINTERPRETER CRASHED (Go panic escaped the call): %v\n", r)
			}
		}()
		if _, acl := vm.LoadAndRun(file); acl != nil {
			fmt.Printf("\nuncaught script error: %v\n", acl.AsString())
			crashed = true
		}
	}()

	want := []string{`plain(41,"x",1.5,true)`, `wide(9007199254740993)`, `named("bob")`, `level(3)`}
	fmt.Println("Go side received:", got)
	fmt.Println("Go side expected:", want)
	ok := !crashed && len(got) == len(want)
	if ok {
		for i := range want {
			if got[i] != want[i] {
				ok = false
			}
		}
	}
	if !ok {
		fmt.Println("WRONG: a registered signature crashed the interpreter or received a different value")
		os.Exit(1)
	}
}
