#!/bin/bash
# Demo for C17: registered Go functions use per-parameter converters chosen at registration; reflect.Convert is skipped only for exact string/int/float64/bool parameter types
# Builds the Go harness in ./harness against the packages of the worktree $WT (through a go build
# overlay; the worktree itself is not modified) and runs it.
# Exits 0 when the behaviour is correct, 1 when it is wrong, 2 on build failure.
export GOFLAGS=-mod=mod GOPROXY=off
WT=${WT:-/tmp/seed/wt_S4C}
HERE="$(cd "$(dirname "$0")" && pwd)"
TMP=$(mktemp -d /tmp/seed/F7C_C17_demo_XXXXXX)
trap 'rm -rf "$TMP"' EXIT
PKG=zz_demo_f7_C17
{
  echo '{"Replace": {'
  first=1
  for f in "$HERE"/harness/*.go; do
    [ $first = 1 ] || echo ','
    first=0
    printf '  "%s/%s/%s": "%s"' "$WT" "$PKG" "$(basename "$f")" "$f"
  done
  echo '}}'
} > "$TMP/overlay.json"
(cd "$WT" && go build  -overlay "$TMP/overlay.json" -o "$TMP/harness.bin" ./$PKG) || { echo "BUILD FAILED"; exit 2; }
(cd "$TMP" && timeout -s KILL 20 ./harness.bin)
RC=$?
echo "harness exit status: $RC"
if [ $RC -eq 0 ]; then echo "DEMO PASS"; exit 0; fi
echo "DEMO FAIL"
exit 1
