<?php
function b($v) { return $v ? "T" : "F"; }
$t = true; $f = false;
// each line: expression as written, then the fully parenthesised form per the table
echo "1 ", b($t xor $f), b($t xor $t), b($f xor $f), "\n";
echo "2 ", b($t xor $f || $t), " ", b($t xor ($f || $t)), "\n";
echo "3 ", b($t || $f xor $t), " ", b(($t || $f) xor $t), "\n";
echo "4 ", b($t xor $t && $f), " ", b($t xor ($t && $f)), "\n";
echo "5 ", b($t xor $t xor $t), " ", b(($t xor $t) xor $t), "\n";
echo "6 ", b($f xor 1 < 2 || $t), " ", b($f xor ((1 < 2) || $t)), "\n";
echo "7 ", b($t XOR $f || $t && $t), " ", b($t xor ($f || ($t && $t))), "\n";
$r = $t xor $f || $t ? "a" : "b";
echo "8 ", $r, " ", (($t xor ($f || $t)) ? "a" : "b"), "\n";
