<?php
function show($label, $f) {
    try {
        $v = $f();
        echo $label, " => ", gettype($v), "(", $v, ")\n";
    } catch (\Throwable $e) {
        echo $label, " => error\n";
    }
}
$ints = [0, 1, -1, 7, 9223372036854775807];
$others = [0.5, 1.5, -0.5, 2.0, 1e308, 3, -2, 0];
foreach ($ints as $a) {
    foreach ($others as $b) {
        $p = $a . " ? " . $b;
        show($p . " [+]", function () use ($a, $b) { return $a + $b; });
        show($p . " [-]", function () use ($a, $b) { return $a - $b; });
        show($p . " [*]", function () use ($a, $b) { return $a * $b; });
        show($p . " [%]", function () use ($a, $b) { return $a % $b; });
    }
}
try {
    echo 5 % 0, "\n";
} catch (\Throwable $e) {
    echo "caught: ", $e->getMessage(), "\n";
}
$i = 10;
$s = 0;
while ($i > 0) {
    $s = $s + $i * 2 - 1;
    $i = $i - 1;
}
echo gettype($s), "(", $s, ")\n";
function lastDigit($n, $base) {
    return $n % $base;
}
echo lastDigit(1234, 10), "\n";
echo lastDigit(1234, 0), "\n";
echo "not reached\n";
