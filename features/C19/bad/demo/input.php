<?php
// F5 C19 demo: default type arguments (class Box<T = int>, class Pair<K, V = string>).
// Every instantiation must enforce its own type arguments, whatever was instantiated before or after.
class Box<T = int> {
    public T $item;
}
class Pair<K, V = string> {
    public K $key;
    public V $val;
}
function tryset($label, $obj, $prop, $v) {
    try { $obj->$prop = $v; echo $label, ": accepted ", gettype($v), "\n"; }
    catch (\Throwable $e) { echo $label, ": rejected ", gettype($v), "\n"; }
}
$d = new Box();            // Box<int> by default
tryset("default-box before", $d, "item", 1);
tryset("default-box before", $d, "item", "s");
$s = new Box<string>();
tryset("string-box", $s, "item", "s");
tryset("string-box", $s, "item", 1);
tryset("default-box after", $d, "item", 2);
tryset("default-box after", $d, "item", "s");
$d2 = new Box();
tryset("second default-box", $d2, "item", 3);
tryset("second default-box", $d2, "item", "s");
$p = new Pair<int>();      // Pair<int, string>
tryset("pair<int>", $p, "key", 1);
tryset("pair<int>", $p, "key", "k");
tryset("pair<int>", $p, "val", "v");
tryset("pair<int>", $p, "val", 5);
$q = new Pair<string, int>();
tryset("pair<string,int>", $q, "key", "k");
tryset("pair<string,int>", $q, "val", 5);
tryset("pair<string,int>", $q, "val", "v");
tryset("pair<int> after", $p, "val", "v");
tryset("pair<int> after", $p, "val", 5);
try { $x = new Box<int, int>(); echo "too many: accepted\n"; } catch (\Throwable $e) { echo "too many: error\n"; }
