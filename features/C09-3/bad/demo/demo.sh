#!/bin/bash
# Demo for seeded change bad (C09): Channel send/receive fast path on an atomic state snapshot
# Builds the interpreter from $WT, runs input.php and compares with expected.txt.
# Exits 0 when the behaviour is correct, 1 when it is wrong, 2 on build failure.
export GOFLAGS=-mod=mod GOPROXY=off
WT=${WT:-/tmp/seed/wt_S4B}
HERE="$(cd "$(dirname "$0")" && pwd)"
BIN=$(mktemp /tmp/seed/origami_C09_demo_XXXXXX)
trap 'rm -f "$BIN"' EXIT
(cd "$WT" && go build -o "$BIN" .) || { echo "BUILD FAILED"; exit 2; }
OUT=$( (ulimit -v 4000000; cd "$HERE" && timeout -s KILL 10 "$BIN" input.php) 2>&1 )
RC=$?
echo "$OUT"
echo "interpreter exit status: $RC"
if [ "$OUT" == "$(cat "$HERE/expected.txt")" ]; then
  echo "DEMO PASS: output matches expected.txt"
  exit 0
fi
echo "DEMO FAIL: output differs from expected.txt:"
diff <(echo "$OUT") "$HERE/expected.txt"
exit 1
