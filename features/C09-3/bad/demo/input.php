<?php
// A buffered channel that still has room is closed; every later send must report failure
// and nothing sent after close may ever be received.
function show($label, $v) { echo $label, ": ", json_encode($v), "\n"; }
$c = new Channel(3);
show("send a", $c->send("a"));
$c->close();
show("isClosed", $c->isClosed());
show("send late-1 after close", $c->send("late-1"));
show("send late-2 after close", $c->send("late-2"));
show("len", $c->len());
show("receive", $c->receive());
show("receive", $c->receive());
show("receive", $c->receive());

// unbuffered channel, closed: send fails as well
$u = new Channel();
$u->close();
show("unbuffered send after close", $u->send("x"));
show("unbuffered receive", $u->receive());
