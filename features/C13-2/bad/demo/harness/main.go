package main

import (
	"fmt"
	"net/http/httptest"
	"os"

	"github.com/php-any/origami/data"
	"github.com/php-any/origami/parser"
	"github.com/php-any/origami/runtime"
	nethttp "github.com/php-any/origami/std/net/http"
)

var failed bool

func check(name string, ok bool, format string, args ...any) {
	if ok {
		fmt.Printf("ok   %s\n", name)
		return
	}
	failed = true
	fmt.Printf("FAIL %s: %s\n", name, fmt.Sprintf(format, args...))
}

// countingRecorder counts header commits on the underlying connection.
type countingRecorder struct {
	*httptest.ResponseRecorder
	commits int
}

func (c *countingRecorder) WriteHeader(code int) {
	c.commits++
	c.ResponseRecorder.WriteHeader(code)
}

func call(vm data.VM, cls data.ClassStmt, name string, args ...data.Value) {
	m, ok := cls.GetMethod(name)
	if !ok {
		fmt.Printf("FAIL method %s missing\n", name)
		os.Exit(1)
	}
	vars := m.GetVariables()
	ctx := vm.CreateContext(vars)
	for i, a := range args {
		ctx.SetVariableValue(vars[i], a)
	}
	if _, acl := m.Call(ctx); acl != nil {
		fmt.Printf("FAIL %s threw: %v\n", name, acl)
		os.Exit(1)
	}
}

func main() {
	vm := runtime.NewVM(parser.NewParser())

	// 1. status(201); jsonRaw(body)
	rec := &countingRecorder{ResponseRecorder: httptest.NewRecorder()}
	res := nethttp.NewResponseWriterClassFrom(rec)
	call(vm, res, "status", data.NewIntValue(201))
	call(vm, res, "header", data.NewStringValue("X-Cache"), data.NewStringValue("hit"))
	call(vm, res, "jsonRaw", data.NewStringValue(`{"id":7}`))
	call(vm, res, "status", data.NewIntValue(500)) // after commit: must be ignored
	call(vm, res, "write", data.NewStringValue("\n"))
	check("status before jsonRaw", rec.Code == 201, "client status = %d, want 201", rec.Code)
	check("header before jsonRaw", rec.Header().Get("X-Cache") == "hit", "X-Cache = %q", rec.Header().Get("X-Cache"))
	check("content type", rec.Header().Get("Content-Type") == "application/json; charset=utf-8", "Content-Type = %q", rec.Header().Get("Content-Type"))
	check("body", rec.Body.String() == "{\"id\":7}\n", "body = %q", rec.Body.String())
	check("one header commit", rec.commits == 1, "underlying WriteHeader called %d times", rec.commits)

	// 2. jsonRaw(body, 202)
	rec = &countingRecorder{ResponseRecorder: httptest.NewRecorder()}
	res = nethttp.NewResponseWriterClassFrom(rec)
	call(vm, res, "jsonRaw", data.NewStringValue(`[]`), data.NewIntValue(202))
	check("status argument", rec.Code == 202, "client status = %d, want 202", rec.Code)
	check("body 2", rec.Body.String() == "[]", "body = %q", rec.Body.String())

	// 3. write(); jsonRaw(body, 404): already committed with 200
	rec = &countingRecorder{ResponseRecorder: httptest.NewRecorder()}
	res = nethttp.NewResponseWriterClassFrom(rec)
	call(vm, res, "write", data.NewStringValue("x"))
	call(vm, res, "jsonRaw", data.NewStringValue(`1`), data.NewIntValue(404))
	check("status after commit ignored", rec.Code == 200, "client status = %d, want 200", rec.Code)
	check("body 3", rec.Body.String() == "x1", "body = %q", rec.Body.String())
	check("one header commit 3", rec.commits == 1, "underlying WriteHeader called %d times", rec.commits)

	if failed {
		os.Exit(1)
	}
}
