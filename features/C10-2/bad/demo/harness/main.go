// Harness for C10: request handlers / coroutines look classes up under a spelling that differs in
// case from the declaration (PHP class names are case-insensitive) while other goroutines keep
// defining new classes. The VM memoises case-insensitive hits in a fold cache; the harness checks
// that every lookup returns the right class, that every successful AddClass is visible to later
// lookups under any spelling, and (built with -race) that no data race / concurrent map write occurs.
package main

import (
	"fmt"
	"os"
	"strings"
	"sync"
	"sync/atomic"

	"github.com/php-any/origami/data"
	"github.com/php-any/origami/parser"
	"github.com/php-any/origami/runtime"
)

func define(p *parser.Parser, vm data.VM, n int, names ...string) {
	var sb strings.Builder
	sb.WriteString("<?php\n")
	for _, name := range names {
		fmt.Fprintf(&sb, "class %s { function id() { return \"%s\"; } }\n", name, name)
	}
	pp := p.Clone()
	prog, acl := pp.ParseString(sb.String(), fmt.Sprintf("/virt/c10_%d.php", n))
	if acl != nil {
		panic(acl.AsString())
	}
	if _, ctl := prog.GetValue(vm.CreateContext(pp.GetVariables())); ctl != nil {
		panic(ctl.AsString())
	}
}

func main() {
	p := parser.NewParser()
	vm := runtime.NewVM(p)

	const workers, rounds, preset = 8, 300, 40
	var names []string
	for i := 0; i < preset; i++ {
		names = append(names, fmt.Sprintf("OrderService%d", i))
	}
	define(p, vm, 0, names...)

	var violations atomic.Int64
	report := func(format string, a ...any) {
		if violations.Add(1) <= 10 {
			fmt.Printf("VIOLATION: "+format+"\n", a...)
		}
	}
	lookup := func(spelling, want string) {
		c, ok := vm.GetClass(spelling)
		if !ok {
			report("GetClass(%q) does not find class %s", spelling, want)
		} else if c.GetName() != want {
			report("GetClass(%q) returned %s, want %s", spelling, c.GetName(), want)
		}
	}

	var seq atomic.Int64
	var wg sync.WaitGroup
	for w := 0; w < workers; w++ {
		w := w
		wg.Add(1)
		go func() {
			defer wg.Done()
			for i := 0; i < rounds; i++ {
				name := names[(w*7+i)%preset]
				lookup(strings.ToLower(name), name)
				lookup(strings.ToUpper(name), name)
				lookup(name, name)
				if i%10 == 0 {
					// a definition made by this worker: visible at once under every spelling
					own := fmt.Sprintf("Handler_%d_%d", w, i)
					define(p, vm, int(seq.Add(1)), own)
					lookup(own, own)
					lookup(strings.ToLower(own), own)
				}
				if _, ok := vm.GetClass(fmt.Sprintf("nosuchclass%d", i)); ok {
					report("GetClass finds a class that was never defined")
				}
			}
		}()
	}
	wg.Wait()
	fmt.Printf("%d workers x %d rounds done, %d violations\n", workers, rounds, violations.Load())
	if violations.Load() > 0 {
		os.Exit(1)
	}
}
