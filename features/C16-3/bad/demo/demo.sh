#!/bin/bash
# Demo for C16: `$var < IntLiteral` gets the fused VarIntLe fast path (new field Lt) and the
# AOT emitter must reproduce it.
# Builds the interpreter from $WT, runs input.php interpreted, compiles it with `zy compile`,
# builds the generated Go (through a go build overlay; the worktree is not modified), runs it,
# and compares compiled output with interpreted output and with expected.txt.
# Exits 0 when they agree, 1 when they differ, 2 on build failure.
export GOFLAGS=-mod=mod GOPROXY=off
WT=${WT:-/tmp/seed/wt_S4C}
HERE="$(cd "$(dirname "$0")" && pwd)"
TMP=$(mktemp -d /tmp/seed/F7C_C16_demo_XXXXXX)
trap 'rm -rf "$TMP"' EXIT
(cd "$WT" && go build -o "$TMP/origami" .) || { echo "BUILD FAILED"; exit 2; }
mkdir -p "$TMP/src" && cp "$HERE/input.php" "$TMP/src/input.php"
(cd "$TMP" && timeout -s KILL 20 ./origami src/input.php) > "$TMP/interp.txt" 2>&1
echo "exit status: $?" >> "$TMP/interp.txt"
(cd "$TMP" && ./origami compile src -o out --pkg main --entry src/input.php) > "$TMP/compile.log" 2>&1 || { cat "$TMP/compile.log"; echo "COMPILE (zy compile) FAILED"; exit 1; }
PKG=zz_demo_f7_C16
{
  echo '{"Replace": {'
  printf '  "%s/%s/main.go": "%s/harness/main.go"' "$WT" "$PKG" "$HERE"
  for f in "$TMP"/out/*.go; do
    printf ',\n  "%s/%s/%s": "%s"' "$WT" "$PKG" "$(basename "$f")" "$f"
  done
  echo '}}'
} > "$TMP/overlay.json"
(cd "$WT" && go build -overlay "$TMP/overlay.json" -o "$TMP/compiled.bin" ./$PKG) || { echo "BUILD OF GENERATED PROGRAM FAILED"; exit 1; }
(cd "$TMP" && timeout -s KILL 20 ./compiled.bin) > "$TMP/compiled.txt" 2>&1
echo "exit status: $?" >> "$TMP/compiled.txt"
RC=0
echo "--- interpreted vs compiled"
diff "$TMP/interp.txt" "$TMP/compiled.txt" || RC=1
echo "--- expected vs compiled"
diff "$HERE/expected.txt" "$TMP/compiled.txt" || RC=1
echo "--- expected vs interpreted"
diff "$HERE/expected.txt" "$TMP/interp.txt" || RC=1
if [ $RC -eq 0 ]; then echo "DEMO PASS"; exit 0; fi
echo "DEMO FAIL"
exit 1
