<?php
// `$var < IntLiteral` conditions: the fused fast path must behave the same
// interpreted and ahead-of-time compiled.
for ($i = 0; $i < 3; $i++) {
    echo "for i=", $i, "\n";
}
$n = 0;
while ($n < 2) {
    $n++;
}
echo "while n=", $n, "\n";
$k = 3;
echo "\$k < 3 => ", ($k < 3) ? "true" : "false", "\n";
echo "\$k <= 3 => ", ($k <= 3) ? "true" : "false", "\n";
$f = 2.5;
echo "\$f < 3 => ", ($f < 3) ? "true" : "false", "\n";
$s = "abc";
echo "\$s < 5 => ", ($s < 5) ? "true" : "false", "\n";
for ($j = 0; $j <= 1; $j++) {
    echo "le j=", $j, "\n";
}
