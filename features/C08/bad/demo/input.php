<?php
interface Sized extends Countable {}
interface Labeled { public function label(); }
interface Collection extends Labeled, Sized {}

class Direct implements Countable { public function count() { return 1; } }
class ViaSized implements Sized { public function count() { return 2; } }
class Bag implements Collection {
    public function count() { return 3; }
    public function label() { return "bag"; }
    public function selfCheck() { return is_countable($this); }
}
class SubBag extends Bag {}
class SubSubBag extends SubBag {}
class Plain { public function count() { return 0; } }
class OnlyLabeled implements Labeled { public function label() { return "x"; } }

function row($name, $v) {
    $a = is_countable($v) ? "yes" : "no";
    $b = ($v instanceof Countable) ? "yes" : "no";
    echo str_pad($name, 12), " is_countable=", $a, " instanceof Countable=", $b, ($a == $b ? "" : "   <-- disagree"), "\n";
}

row("Direct", new Direct());
row("ViaSized", new ViaSized());
row("Bag", new Bag());
row("SubBag", new SubBag());
row("SubSubBag", new SubSubBag());
row("Plain", new Plain());
row("OnlyLabeled", new OnlyLabeled());
echo "array: ", var_export(is_countable([1, 2]), true), " int: ", var_export(is_countable(5), true), " string: ", var_export(is_countable("abc"), true), " null: ", var_export(is_countable(null), true), "\n";
$b = new SubBag();
echo "this: ", var_export($b->selfCheck(), true), "\n";
