<?php
# leading hash comment
function f() { return 1; } # trailing comment
echo "f=", f(), "\n"; # done ?>
<?php echo "after\n";
#