<?php
// One access site inside Vault is fed objects of different classes. Access to Vault's own
// non-public members is allowed; the same-named private/protected members of the unrelated
// class Safe must stay inaccessible, whatever was accessed through this site before.
class Vault {
    private $secret = 'vault-secret';
    protected $prot = 'vault-prot';
    function peek($o) { return $o->secret; }
    function peekProt($o) { return $o->prot; }
    function poke($o, $v) { $o->secret = $v; }
    function dump() { return $this->secret; }
}
class Safe {
    private $secret = 'safe-secret';
    protected $prot = 'safe-prot';
    function dump() { return $this->secret; }
}
class SubVault extends Vault {}

function t($label, $f) {
    try { $r = json_encode($f()); } catch (Throwable $e) { $r = "DENIED"; }
    echo $label, ": ", $r, "\n";
}

$v = new Vault; $s = new Safe; $sv = new SubVault;
$objs = ["safe" => $s, "vault" => $v, "safe-again" => $s, "sub" => $sv, "safe-3" => $s];
foreach ($objs as $name => $o) {
    t("read private   $name", fn() => $v->peek($o));
}
foreach ($objs as $name => $o) {
    t("read protected $name", fn() => $v->peekProt($o));
}
foreach ($objs as $name => $o) {
    t("write private  $name", function() use ($v, $o) { $v->poke($o, "overwritten"); return "ok"; });
}
echo "safe now holds: ", $s->dump(), "\n";
echo "vault now holds: ", $v->dump(), "\n";
