<?php
function t($label, $f) {
    try {
        $r = $f();
        echo $label, " = ", gettype($r), "(", $r, ")\n";
    } catch (\Throwable $e) {
        echo $label, " -> error: ", $e->getMessage(), "\n";
    }
}
t('"17" % 5', fn() => "17" % 5);
t('"-17" % 5', fn() => "-17" % 5);
t('"17.9" % "5"', fn() => "17.9" % "5");
t('true % 2', fn() => true % 2);
t('null % 3', fn() => null % 3);
t('"9007199254740993" % 2', fn() => "9007199254740993" % 2);
t('"7" % 2.5', fn() => "7" % 2.5);
t('"7" % 0', fn() => "7" % 0);
t('"7" % "0"', fn() => "7" % "0");
t('"7" % false', fn() => "7" % false);
t('"7" % 0.5', fn() => "7" % 0.5);
t('"7" % "0.25"', fn() => "7" % "0.25");
t('null % -0.9', fn() => null % -0.9);
t('"abc" % 3', fn() => "abc" % 3);
echo "done\n";
$half = 0.5;
echo "unprotected: ", "7" % $half, "\n";
