// Harness for C12: a sequence of definitions and lookups over one base VM and two request-scoped
// TempVMs, checked step by step against a set model:
//   visible(base)  = defined on base
//   visible(tempX) = defined on base  ∪  defined on tempX
package main

import (
	"fmt"
	"os"
	"strings"

	"github.com/php-any/origami/data"
	"github.com/php-any/origami/parser"
	"github.com/php-any/origami/runtime"
)

func defineClasses(names []string) map[string]data.ClassStmt {
	p := parser.NewParser()
	vm := runtime.NewVM(p)
	var src strings.Builder
	src.WriteString("<?php\n")
	for _, n := range names {
		fmt.Fprintf(&src, "class %s {}\n", n)
	}
	if _, acl := p.ParseString(src.String(), "/tmp/c12_demo_fixture.php"); acl != nil {
		fmt.Println("fixture parse failed:", acl)
		os.Exit(2)
	}
	out := map[string]data.ClassStmt{}
	for _, n := range names {
		c, ok := vm.GetClass(n)
		if !ok {
			fmt.Println("fixture class missing:", n)
			os.Exit(2)
		}
		out[n] = c
	}
	return out
}

var failures int

func expect(step string, vm data.VM, name string, want bool) {
	_, got := vm.GetClass(name)
	status := "ok"
	if got != want {
		status = "WRONG"
		failures++
	}
	fmt.Printf("%-58s GetClass(%s) = %-5v want %-5v %s\n", step, name, got, want, status)
}

func main() {
	names := []string{"Invoice", "Customer", "Report", "Ledger"}
	stmts := defineClasses(names)

	base := runtime.NewVM(parser.NewParser())
	t1 := runtime.NewTempVM(base)
	t2 := runtime.NewTempVM(base)

	must := func(acl data.Control) {
		if acl != nil {
			fmt.Println("AddClass failed:", acl)
			os.Exit(2)
		}
	}

	// 1. nothing defined yet: every VM misses (t1 and t2 now have looked the names up once)
	expect("1 empty: base", base, "Invoice", false)
	expect("1 empty: temp1", t1, "Invoice", false)
	expect("1 empty: temp1", t1, "Customer", false)
	expect("1 empty: temp2", t2, "Invoice", false)

	// 2. request 1 defines Customer: visible on temp1 only
	must(t1.AddClass(stmts["Customer"]))
	expect("2 temp1 defines Customer: temp1", t1, "Customer", true)
	expect("2 temp1 defines Customer: temp2", t2, "Customer", false)
	expect("2 temp1 defines Customer: base", base, "Customer", false)

	// 3. the base VM gets Invoice (e.g. autoloaded by the long-running part of the server):
	//    everything defined on the base VM is resolvable through every temporary VM
	must(base.AddClass(stmts["Invoice"]))
	expect("3 base defines Invoice: base", base, "Invoice", true)
	expect("3 base defines Invoice: temp1 (looked it up before)", t1, "Invoice", true)
	expect("3 base defines Invoice: temp2 (looked it up before)", t2, "Invoice", true)
	t3 := runtime.NewTempVM(base)
	expect("3 base defines Invoice: temp3 (fresh)", t3, "Invoice", true)

	// 4. GetOrLoadClass goes through the same lookup
	if t1.(*runtime.TempVM) != nil {
		tv := t1.(*runtime.TempVM)
		tv.PrepareParse(parser.NewParser())
		_, missAcl := tv.GetOrLoadClass("Ledger")
		fmt.Printf("%-58s GetOrLoadClass(Ledger) error=%v\n", "4 temp1 before base defines Ledger", missAcl != nil)
		must(base.AddClass(stmts["Ledger"]))
		c, acl := tv.GetOrLoadClass("Ledger")
		ok := acl == nil && c != nil
		st := "ok"
		if !ok {
			st = "WRONG"
			failures++
		}
		fmt.Printf("%-58s GetOrLoadClass(Ledger) found=%v want true %s\n", "4 temp1 after base defines Ledger", ok, st)
	}

	// 5. temp-only names stay temp-only after all of the above
	must(t2.AddClass(stmts["Report"]))
	expect("5 temp2 defines Report: temp2", t2, "Report", true)
	expect("5 temp2 defines Report: temp1", t1, "Report", false)
	expect("5 temp2 defines Report: base", base, "Report", false)
	expect("5 temp1 still sees its Customer", t1, "Customer", true)

	if failures > 0 {
		fmt.Printf("FAIL: %d lookups disagree with the model\n", failures)
		os.Exit(1)
	}
	fmt.Println("OK")
}
