#!/bin/bash
# Demo for f7 C12 (bad variant): TempVM remembers base-VM lookup misses.
# Builds the Go harness in ./harness against the packages of the worktree $WT (through a
# go build overlay; the worktree itself is not modified) and runs it.
# Exits 0 when the behaviour is correct, 1 when it is wrong (a lookup disagrees with the set model), 2 on build failure.
export GOFLAGS=-mod=mod GOPROXY=off
WT=${WT:-/tmp/seed/wt_S4B}
HERE="$(cd "$(dirname "$0")" && pwd)"
TMP=$(mktemp -d /tmp/seed/C12_demo_XXXXXX)
trap 'rm -rf "$TMP"' EXIT
PKG=zz_demo_f7_C12
{
  echo '{"Replace": {'
  first=1
  for f in "$HERE"/harness/*.go; do
    [ $first = 1 ] || echo ','
    first=0
    printf '  "%s/%s/%s": "%s"' "$WT" "$PKG" "$(basename "$f")" "$f"
  done
  echo '}}'
} > "$TMP/overlay.json"
(cd "$WT" && go build -overlay "$TMP/overlay.json" -o "$TMP/harness.bin" ./$PKG) || { echo "BUILD FAILED"; exit 2; }
(cd "$TMP" && GOMAXPROCS=8 timeout -s KILL 60 ./harness.bin > out.txt 2>&1)
RC=$?
head -30 "$TMP/out.txt"
echo "harness exit status: $RC"
if [ $RC -eq 0 ]; then echo "DEMO PASS"; exit 0; fi
echo "DEMO FAIL"
exit 1
