<?php
// keyed destructuring assignment: ['key' => target, ...] = $row
// property targets must obey visibility and declared types exactly like `$obj->prop = value`
class Account {
    private int $balance = 100;
    protected $owner = "alice";
    public int $limit = 10;
    public $note = "";
    public function balance() { return $this->balance; }
    public function owner() { return $this->owner; }
    public function load($row) { ['balance' => $this->balance, 'owner' => $this->owner] = $row; }
}
class Savings extends Account {
    public function rename($row) { ['owner' => $this->owner] = $row; }
}
function show($a) { echo "  state: balance=", $a->balance(), " owner=", $a->owner(), " limit=", var_export($a->limit, true), " note=", var_export($a->note, true), "\n"; }

$a = new Savings();
['x' => $x, 'note' => $a->note, 'limit' => $a->limit] = ['x' => 1, 'note' => "hi", 'limit' => 20];
echo "public targets: x=$x\n"; show($a);
$a->load(['balance' => 150, 'owner' => "bob"]);
echo "own class (private/protected via \$this):\n"; show($a);
$a->rename(['owner' => "carol"]);
echo "subclass (protected via \$this):\n"; show($a);

try { ['v' => $a->balance] = ['v' => 999999]; echo "private from outside: NO ERROR\n"; }
catch (\Throwable $e) { echo "private from outside: error\n"; }
show($a);
try { ['v' => $a->owner] = ['v' => "mallory"]; echo "protected from outside: NO ERROR\n"; }
catch (\Throwable $e) { echo "protected from outside: error\n"; }
show($a);
try { ['v' => $a->limit] = ['v' => "not an int"]; echo "string into int property: NO ERROR\n"; }
catch (\Throwable $e) { echo "string into int property: error\n"; }
show($a);
try { $a->load(['balance' => "lots", 'owner' => "dave"]); echo "string into private int via load(): NO ERROR\n"; }
catch (\Throwable $e) { echo "string into private int via load(): error\n"; }
show($a);
