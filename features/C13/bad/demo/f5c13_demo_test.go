package http

// F5 C13 demo: the new $res->text($content, $status = null) must go through the buffered-writer
// protocol: the pending status (set by status() or by its own argument) is what the client sees,
// the underlying connection sees exactly one header commit, later calls cannot alter the status.

import (
	"io"
	httpsrc "net/http"
	"net/http/httptest"
	"testing"

	"github.com/php-any/origami/data"
	"github.com/php-any/origami/runtime"
)

func f5c13Call(t *testing.T, cls data.ClassStmt, name string, args ...data.Value) {
	t.Helper()
	m, ok := cls.GetMethod(name)
	if !ok {
		t.Fatalf("no method %s", name)
	}
	vars := m.GetVariables()
	ctx := runtime.NewContext(nil).CreateContext(vars)
	for i, a := range args {
		if acl := ctx.SetVariableValue(vars[i], a); acl != nil {
			t.Fatalf("%s: set arg %d: %v", name, i, acl)
		}
	}
	if _, acl := m.Call(ctx); acl != nil {
		t.Fatalf("%s threw: %s", name, acl.AsString())
	}
}

type f5c13Counting struct {
	httpsrc.ResponseWriter
	commits int
}

func (c *f5c13Counting) WriteHeader(code int) {
	c.commits++
	c.ResponseWriter.WriteHeader(code)
}

func f5c13Roundtrip(t *testing.T, script func(res data.ClassStmt)) (int, string, httpsrc.Header, int) {
	t.Helper()
	commits := 0
	srv := httptest.NewServer(httpsrc.HandlerFunc(func(w httpsrc.ResponseWriter, r *httpsrc.Request) {
		cw := &f5c13Counting{ResponseWriter: w}
		func() {
			rw, response := beginResponse(cw, r)
			defer rw.commitPending()
			script(response)
		}()
		commits = cw.commits
	}))
	defer srv.Close()
	resp, err := srv.Client().Get(srv.URL + "/")
	if err != nil {
		t.Fatalf("GET: %v", err)
	}
	defer resp.Body.Close()
	b, _ := io.ReadAll(resp.Body)
	return resp.StatusCode, string(b), resp.Header, commits
}

func f5c13S(v string) data.Value { return data.NewStringValue(v) }
func f5c13N(v int) data.Value    { return data.NewIntValue(v) }

// status(404); header('X-Trace','t1'); text('not found')
func TestF5C13_StatusThenText(t *testing.T) {
	code, body, hdr, commits := f5c13Roundtrip(t, func(r data.ClassStmt) {
		f5c13Call(t, r, "status", f5c13N(404))
		f5c13Call(t, r, "header", f5c13S("X-Trace"), f5c13S("t1"))
		f5c13Call(t, r, "text", f5c13S("not found"))
	})
	if code != 404 {
		t.Errorf("status(404); text(...): client status = %d, want 404", code)
	}
	if body != "not found" || hdr.Get("X-Trace") != "t1" || hdr.Get("Content-Type") != "text/plain; charset=utf-8" {
		t.Errorf("body/headers = %q %q %q", body, hdr.Get("X-Trace"), hdr.Get("Content-Type"))
	}
	if commits != 1 {
		t.Errorf("header commits on the underlying writer = %d, want 1", commits)
	}
}

// text('teapot', 418); status(500); write('!')
func TestF5C13_TextWithStatusThenLateStatus(t *testing.T) {
	code, body, _, commits := f5c13Roundtrip(t, func(r data.ClassStmt) {
		f5c13Call(t, r, "text", f5c13S("teapot"), f5c13N(418))
		f5c13Call(t, r, "status", f5c13N(500))
		f5c13Call(t, r, "write", f5c13S("!"))
	})
	if code != 418 || body != "teapot!" {
		t.Errorf("text('teapot', 418); status(500); write('!'): got %d %q, want 418 \"teapot!\"", code, body)
	}
	if commits != 1 {
		t.Errorf("header commits on the underlying writer = %d, want 1", commits)
	}
}

// controls that hold with either variant
func TestF5C13_Controls(t *testing.T) {
	code, body, hdr, commits := f5c13Roundtrip(t, func(r data.ClassStmt) {
		f5c13Call(t, r, "text", f5c13S("<b>hi</b>"))
	})
	if code != 200 || body != "<b>hi</b>" || hdr.Get("Content-Type") != "text/plain; charset=utf-8" || commits > 1 {
		t.Errorf("text('<b>hi</b>'): got %d %q %q commits=%d", code, body, hdr.Get("Content-Type"), commits)
	}
	code, body, _, commits = f5c13Roundtrip(t, func(r data.ClassStmt) {
		f5c13Call(t, r, "write", f5c13S("a"))
		f5c13Call(t, r, "text", f5c13S("b"), f5c13N(404))
	})
	if code != 200 || body != "ab" || commits != 1 {
		t.Errorf("write('a'); text('b', 404): got %d %q commits=%d, want 200 \"ab\" 1", code, body, commits)
	}
}
