#!/bin/bash
# F5 C13 demo: $res->text() must commit the pending status through the buffered writer (status once,
# exactly one header commit). Copies the test file into $WT/std/net/http, runs it, removes it again.
# exit 0 = behaviour right, 1 = wrong, 2 = build/setup problem
export GOFLAGS=-mod=mod GOPROXY=off
WT=${WT:-/tmp/seed/wt_S4C}
HERE="$(cd "$(dirname "$0")" && pwd)"
F=f5c13_demo_test.go
cp "$HERE/$F" "$WT/std/net/http/$F" || exit 2
trap 'rm -f "$WT/std/net/http/$F"' EXIT
OUT=$(cd "$WT" && go test -vet=off -count=1 -run 'TestF5C13_' ./std/net/http/ 2>&1)
echo "$OUT"
if echo "$OUT" | grep -q "^ok"; then echo "DEMO PASS"; exit 0; fi
if echo "$OUT" | grep -q -- "--- FAIL"; then echo "DEMO FAIL"; exit 1; fi
echo "DEMO: build/setup problem"; exit 2
