<?php
// non-blocking channel operations: trySend() / tryReceive()
$ch = new Channel(3);
echo "empty tryReceive: ", var_export($ch->tryReceive(), true), "\n";
echo "trySend a: ", var_export($ch->trySend("a"), true), "\n";
echo "trySend b: ", var_export($ch->trySend("b"), true), "\n";
echo "len: ", $ch->len(), "\n";
echo "tryReceive: ", $ch->tryReceive(), "\n";
$ch->close();
echo "closed: ", var_export($ch->isClosed(), true), "\n";
// after close a send must report failure and nothing new may enter the buffer
echo "send after close: ", var_export($ch->send("x"), true), "\n";
echo "trySend after close: ", var_export($ch->trySend("late"), true), "\n";
echo "len after close: ", $ch->len(), "\n";
// receivers drain what was buffered before the close, then get null
echo "drain 1: ", var_export($ch->receive(), true), "\n";
echo "drain 2: ", var_export($ch->receive(), true), "\n";
echo "drain 3: ", var_export($ch->tryReceive(), true), "\n";

// a full buffer makes trySend fail without blocking
$full = new Channel(1);
echo "full 1: ", var_export($full->trySend(1), true), "\n";
echo "full 2: ", var_export($full->trySend(2), true), "\n";
echo "full recv: ", var_export($full->tryReceive(), true), "\n";
echo "full recv again: ", var_export($full->tryReceive(), true), "\n";
