<?php
// F5 C14 demo: unserialize() learned the float token d:<literal>; .
// Well-formed input round-trips; every malformed/truncated input must give false (decoder is total).
foreach ([1.5, -0.0, 1e21, 1e-7, 0.1, 123456789.0] as $f) {
    $s = serialize($f);
    echo $s, " roundtrip=", (unserialize($s) === $f ? "yes" : "no"), "\n";
}
echo "nested=", json_encode(unserialize('a:2:{i:0;d:0.5;i:1;s:1:"x";}')), "\n";
$malformed = ['d:;', 'd:1.5x;', 'd:--1;', 'd:INFINITY;', 'd:1.5;x', 'd:1.5', 'd:2', 'a:1:{i:0;d:2.5', 'd:-INF'];
foreach ($malformed as $m) {
    $r = unserialize($m);
    echo str_pad($m, 16), " -> ", ($r === false ? "false" : "ACCEPTED " . json_encode($r)), "\n";
}
echo "done\n";
