// Harness for C12: eval() under a request-scoped TempVM. A script function that eval()s a class
// definition is called through three temporary VMs of one base VM (the way HotHandler serves
// requests). The class must exist in the TempVM that evaluated it only: the base VM and the other
// TempVMs must resolve exactly what they resolved before, and base definitions stay resolvable.
package main

import (
	"fmt"
	"os"
	"path/filepath"

	"github.com/php-any/origami/data"
	"github.com/php-any/origami/parser"
	"github.com/php-any/origami/runtime"
	"github.com/php-any/origami/std"
	"github.com/php-any/origami/std/php"
)

const script = `<?php
class BaseThing { public function name() { return "base"; } }

function defineV1() {
    eval('class ReqScoped { public function tag() { return "v1"; } }');
    $o = new ReqScoped();
    $b = new BaseThing();
    return $o->tag() . "+" . $b->name();
}
function defineV2() {
    eval('class ReqScoped { public function tag() { return "v2"; } } interface ReqMarker {}');
    $o = new ReqScoped();
    return $o->tag();
}
function probe() {
    return class_exists("ReqScoped", false) ? "visible" : "absent";
}
`

var fail bool

func check(what string, got, want any) {
	status := "ok"
	if got != want {
		status = "WRONG"
		fail = true
	}
	fmt.Printf("%-62s got %-8v want %-8v %s\n", what, got, want, status)
}

func call(base data.VM, on data.VM, name string) string {
	fn, ok := base.GetFunc(name)
	if !ok {
		panic(name + " not found")
	}
	ctx := base.CreateContext(fn.GetVariables())
	ctx.SetVM(on)
	v, acl := fn.Call(ctx)
	if acl != nil {
		return "ERROR: " + acl.AsString()
	}
	if s, ok := v.(data.AsString); ok {
		return s.AsString()
	}
	return fmt.Sprintf("%T", v)
}

func main() {
	dir, _ := os.MkdirTemp("", "c12demo")
	defer os.RemoveAll(dir)
	path := filepath.Join(dir, "app.php")
	if err := os.WriteFile(path, []byte(script), 0o644); err != nil {
		panic(err)
	}
	base := runtime.NewVM(parser.NewParser())
	std.Load(base)
	php.Load(base)
	if _, acl := base.LoadAndRun(path); acl != nil {
		panic(acl.AsString())
	}

	t1 := runtime.NewTempVM(base)
	t2 := runtime.NewTempVM(base)
	t3 := runtime.NewTempVM(base)

	has := func(vm data.VM, n string) bool { _, ok := vm.GetClass(n); return ok }
	hasI := func(vm data.VM, n string) bool { _, ok := vm.GetInterface(n); return ok }

	check("before: base resolves ReqScoped", has(base, "ReqScoped"), false)
	check("request 1 (temp VM 1): eval defines ReqScoped v1", call(base, t1, "defineV1"), "v1+base")
	check("temp VM 1 resolves ReqScoped", has(t1, "ReqScoped"), true)
	check("temp VM 1 still resolves BaseThing of the base VM", has(t1, "BaseThing"), true)
	check("after request 1: base resolves ReqScoped", has(base, "ReqScoped"), false)
	check("after request 1: temp VM 2 resolves ReqScoped", has(t2, "ReqScoped"), false)
	check("request 2 (temp VM 2): probe() sees ReqScoped", call(base, t2, "probe"), "absent")
	check("request 2 (temp VM 2): eval defines its own ReqScoped v2", call(base, t2, "defineV2"), "v2")
	check("temp VM 2 resolves interface ReqMarker", hasI(t2, "ReqMarker"), true)
	check("after request 2: base resolves ReqScoped", has(base, "ReqScoped"), false)
	check("after request 2: base resolves interface ReqMarker", hasI(base, "ReqMarker"), false)
	check("after request 2: temp VM 1 resolves interface ReqMarker", hasI(t1, "ReqMarker"), false)
	check("request 3 (fresh temp VM 3): probe() sees ReqScoped", call(base, t3, "probe"), "absent")
	check("base VM itself: probe() sees ReqScoped", call(base, base, "probe"), "absent")

	if fail {
		fmt.Println("definitions made by eval() on a temporary VM leaked")
		os.Exit(1)
	}
	fmt.Println("eval() definitions stayed inside their temporary VM")
}
