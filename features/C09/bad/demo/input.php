<?php
// 1) timeout on an open, empty channel gives null; a buffered value is delivered
$c = new Channel(2);
echo "empty: ", var_export($c->receiveTimeout(10), true), "\n";
$c->send("a");
echo "one: ", var_export($c->receiveTimeout(10), true), "\n";

// 2) after close the buffered values must still be delivered, in order, then null
$lost = 0;
for ($round = 0; $round < 40; $round++) {
    $ch = new Channel(4);
    for ($i = 1; $i <= 4; $i++) {
        $ch->send("v" . $i);
    }
    $ch->close();
    $got = "";
    for ($i = 0; $i < 5; $i++) {
        $v = $ch->receiveTimeout(20);
        $got = $got . ($v === null ? "null" : $v) . ",";
    }
    if ($got != "v1,v2,v3,v4,null,") {
        if ($lost == 0) {
            echo "round $round: got $got\n";
        }
        $lost++;
    }
}
echo "rounds with a wrong drain after close: $lost of 40\n";
