<?php
class Conf {
    public const HOST = "localhost";
    protected const PORT = 8080;
    private const SECRET = "s3cr3t";
    public static function inside($n) { return Conf::{$n}; }
}
class Sub extends Conf {
    public static function fromSub($n) { return Conf::{$n}; }
}
class Other {
    public static function fromOther($n) { return Conf::{$n}; }
}

// allowed accesses
$n = "HOST";
echo "outside HOST: ", Conf::{$n}, "\n";
echo "outside HOST (expr): ", Conf::{"HO" . "ST"}, "\n";
echo "inside SECRET: ", Conf::inside("SECRET"), "\n";
echo "inside PORT: ", Conf::inside("PORT"), "\n";
echo "subclass PORT: ", Sub::fromSub("PORT"), "\n";

// forbidden accesses: must raise a catchable error, exactly like the literal form
foreach (["PORT", "SECRET"] as $k) {
    try {
        $v = Conf::{$k};
        echo "outside $k: LEAKED $v\n";
    } catch (\Throwable $e) {
        echo "outside $k: denied\n";
    }
    try {
        $v = Other::fromOther($k);
        echo "unrelated class $k: LEAKED $v\n";
    } catch (\Throwable $e) {
        echo "unrelated class $k: denied\n";
    }
}
try { $v = Conf::SECRET; echo "literal SECRET: LEAKED $v\n"; } catch (\Throwable $e) { echo "literal SECRET: denied\n"; }
try { $v = Conf::PORT; echo "literal PORT: LEAKED $v\n"; } catch (\Throwable $e) { echo "literal PORT: denied\n"; }

// malformed names
try { echo Conf::{5}, "\n"; } catch (\Throwable $e) { echo "non-string name: error\n"; }
try { echo Conf::{"NOPE"}, "\n"; } catch (\Throwable $e) { echo "unknown constant: error\n"; }
