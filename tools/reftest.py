#!/usr/bin/env python3
"""Behaviour-preserving refactorings (produced by fresh agents) must keep the checks silent.
usage: reftest.py [<base-commit> <dir>...]   (default: every /verif/refactors/Cxx-rN, base 3a35781)   → prints SILENT / ALARM per patch"""
import json, os, subprocess, sys, glob, tempfile, shutil
ROOT = os.path.dirname(os.path.dirname(os.path.abspath(__file__)))
SCR = os.environ.get("VERIF_SCR", "/tmp/mrepo")
def sh(c): return subprocess.run(c, shell=True, capture_output=True, text=True)
base = sys.argv[1] if len(sys.argv) > 1 else "3a35781"
dirs = sys.argv[2:] or sorted(glob.glob(ROOT + "/refactors/*"))
sh("git -C /repo worktree prune; [ -d %s ] || git -C /repo worktree add -q --detach %s HEAD" % (SCR, SCR))
bad = 0
for d in dirs:
    bn = os.path.basename(d.rstrip("/"))
    prop = bn.split("_")[1] if "_" in bn else bn.split("-")[0]
    for pd in sorted(glob.glob(d + "/*/patch.diff") + glob.glob(d + "/patch.diff")):
        # prefer the current tree (later repairs included); fall back to the commit the patch was made on
        sh("git -C %s checkout -q --detach $(git -C /repo rev-parse HEAD) && git -C %s checkout -q -- . && git -C %s clean -fdq" % (SCR, SCR, SCR))
        a = sh("git -C %s apply %s" % (SCR, pd))
        at = ""
        if a.returncode:
            at = "  (judged at %s: the patch no longer applies to the current tree)" % base
            sh("git -C %s checkout -q --detach %s && git -C %s checkout -q -- . && git -C %s clean -fdq" % (SCR, base, SCR, SCR))
            a = sh("git -C %s apply %s" % (SCR, pd))
        if a.returncode:
            print("%-22s APPLY-FAILED %s" % (os.path.relpath(os.path.dirname(pd), os.path.dirname(os.path.dirname(d.rstrip("/"))) if "_" in bn else os.path.dirname(d.rstrip("/"))), a.stderr.strip()[:100])); continue
        v = tempfile.mkdtemp(prefix="refv"); os.makedirs(v + "/evidence"); shutil.copy(ROOT + "/known_findings.json", v)
        r = sh("%s/bin/origamilint -prop %s -tier quick -repo %s -verif %s" % (ROOT, prop, SCR, v))
        out = r.stdout + r.stderr
        lines = [l.strip()[:230] for l in out.splitlines() if ("rule=" in l and "KNOWN-FINDING" not in l and "NOTE" not in l) or "CHECKER-ERROR" in l]
        exp = "silent"
        try:
            exp = json.load(open(os.path.dirname(pd) + "/meta.json")).get("expect", "silent")
        except Exception:
            pass
        print("%-22s %s" % (os.path.relpath(os.path.dirname(pd), os.path.dirname(os.path.dirname(d.rstrip("/"))) if "_" in bn else os.path.dirname(d.rstrip("/"))), ("SILENT" if r.returncode == 0 else "ALARM rc=%d" % r.returncode) + at))
        for l in lines[:6]: print("      " + l)
        if r.returncode and exp == "silent": bad += 1
        elif r.returncode: print("      (recorded as %s in meta.json)" % exp)
        elif exp != "silent": print("      NOTE: recorded as %s but silent now: update meta.json" % exp)
        shutil.rmtree(v)
sh("git -C %s checkout -q -- . && git -C %s clean -fdq && git -C %s checkout -q --detach $(git -C /repo rev-parse HEAD)" % (SCR, SCR, SCR))
print("alarms:", bad)
