#!/bin/bash
# Runs the repository's pinned test-suite (guard off: there are no hooks) and compares with BASELINE.json.
set -u
export GOFLAGS=-mod=mod GOPROXY=off
OUT=$(mktemp)
for m in $(cat /w/out/gomods.txt); do (cd /repo/$m && go test -json -vet=off -count=1 -timeout 25m ./... ); done > "$OUT" 2>/dev/null
python3 - "$OUT" <<'PY'
import json,sys
base=json.load(open('/root/.vp/BASELINE.json'))
want=set(base['stable_pass'])
got=set()
for l in open(sys.argv[1]):
    try: e=json.loads(l)
    except Exception: continue
    if e.get('Action')=='pass' and e.get('Test'):
        got.add(e['Package']+'::'+e['Test'])
missing=sorted(want-got)
print("baseline tests expected=%d passing=%d missing=%d"%(len(want),len(want&got),len(missing)))
for m in missing: print("MISSING",m)
sys.exit(1 if missing else 0)
PY
rc=$?
rm -f "$OUT"
exit $rc
