#!/usr/bin/env python3
"""Seed x refactoring cross product: where a seeded change still applies on top of a behaviour-preserving
refactoring of the same property, the checker must still report it (generalising the rules for the
refactorings must not have blunted them).
usage: crosstest.py [-k Cxx]  → one line per applicable pair: DETECTED / MISSED / (skipped when the patches overlap)"""
import json, os, subprocess, sys, glob, tempfile, shutil, re
ROOT = os.path.dirname(os.path.dirname(os.path.abspath(__file__)))
SCR = os.environ.get("VERIF_SCR", "/tmp/mrepo")
def sh(c): return subprocess.run(c, shell=True, capture_output=True, text=True)
filt = sys.argv[sys.argv.index("-k") + 1] if "-k" in sys.argv else None
sh("git -C /repo worktree prune; [ -d %s ] || git -C /repo worktree add -q --detach %s HEAD" % (SCR, SCR))
head = sh("git -C /repo rev-parse HEAD").stdout.strip()
n = det = miss = 0
for rd in sorted(glob.glob(ROOT + "/refactors/*/")):
    rid = os.path.basename(rd.rstrip("/")); prop = rid.split("-")[0]
    if filt and filt != prop: continue
    for sd in sorted(glob.glob(ROOT + "/seeded/%s-*/" % prop)):
        sid = os.path.basename(sd.rstrip("/"))
        meta = json.load(open(sd + "meta.json"))
        if meta.get("checker", {}).get("status", "").startswith("missed"): continue
        ok = False
        for base in (head, "3a35781", meta.get("confirmed", {}).get("base_commit")):
            if not base: continue
            sh("git -C %s checkout -q --detach %s && git -C %s checkout -q -- . && git -C %s clean -fdq" % (SCR, base, SCR, SCR))
            if sh("git -C %s apply %spatch.diff" % (SCR, rd)).returncode: continue
            if sh("git -C %s apply %spatch.diff" % (SCR, sd)).returncode:
                # try 3-way tolerant application with patch(1) (fuzz) for hunks that only moved
                if sh("cd %s && patch -p1 -s -f --no-backup-if-mismatch -F3 < %spatch.diff" % (SCR, sd)).returncode:
                    sh("git -C %s checkout -q -- . && git -C %s clean -fdq" % (SCR, SCR)); continue
            ok = True; break
        if not ok: continue
        b = sh("cd %s && GOFLAGS=-mod=mod GOPROXY=off go build ./... 2>&1 | head -3" % SCR)
        if b.stdout.strip():
            continue  # the combination does not compile: not a meaningful pair
        v = tempfile.mkdtemp(prefix="crossv"); os.makedirs(v + "/evidence"); shutil.copy(ROOT + "/known_findings.json", v)
        r = sh("%s/bin/origamilint -prop %s -tier quick -repo %s -verif %s" % (ROOT, prop, SCR, v))
        out = r.stdout + r.stderr
        rules = sorted(set(re.findall(r'rule=(\S+)', "\n".join(l for l in out.splitlines() if "rule=" in l and "KNOWN-FINDING" not in l and "NOTE" not in l))))
        n += 1
        want = set(meta.get("checker", {}).get("rules", []))
        verdict = "DETECTED" if r.returncode == 1 and rules else ("CHECKER-ERROR" if r.returncode == 2 else "MISSED")
        if verdict == "DETECTED": det += 1
        else: miss += 1
        print("%-8s on %-8s %-13s %s%s" % (sid, rid, verdict, ",".join(rules), "" if (not want or want & set(rules) or verdict != "DETECTED") else "   (other rules than on the plain tree: %s)" % ",".join(sorted(want))))
        shutil.rmtree(v)
sh("git -C %s checkout -q -- . && git -C %s clean -fdq && git -C %s checkout -q --detach %s" % (SCR, SCR, SCR, head))
print("pairs=%d detected=%d not-detected=%d" % (n, det, miss))
