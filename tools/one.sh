#!/bin/bash
# usage: one.sh <patch-dir> <Cxx> [scratch]  — apply one seeded/refactor patch to a scratch worktree and run one property's quick check
d=$(readlink -f $1); p=$2; scr=${3:-${VERIF_SCR:-/tmp/mrepo}}
git -C /repo worktree prune; [ -d $scr ] || git -C /repo worktree add -q --detach $scr HEAD
base=$(python3 -c "import json,sys;print(json.load(open('$d/meta.json')).get('base') or '')" 2>/dev/null)
ok=
for b in $(git -C /repo rev-parse HEAD) $base 3a35781 b57915b; do
  git -C $scr checkout -q --detach $b && git -C $scr checkout -q -- . && git -C $scr clean -fdq
  if git -C $scr apply $d/patch.diff 2>/dev/null; then ok=$b; break; fi
done
[ -z "$ok" ] && { echo APPLY-FAILED; exit 3; }
v=$(mktemp -d); mkdir $v/evidence; cp /verif/known_findings.json $v
/verif/bin/origamilint -prop $p -tier quick -repo $scr -verif $v 2>&1 | grep -v "KNOWN-FINDING\|^NOTE" | tail -${TAILN:-8}
rm -rf $v
git -C $scr checkout -q -- . && git -C $scr clean -fdq && git -C $scr checkout -q --detach $(git -C /repo rev-parse HEAD)
