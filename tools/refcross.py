#!/usr/bin/env python3
"""Every behaviour-preserving refactoring must keep *every* property's check silent, not only the check of
the property it was written for. usage: refcross.py [-k Cxx]  → one line per (refactoring, other property) that alarms"""
import json, os, subprocess, sys, glob, tempfile, shutil
from concurrent.futures import ThreadPoolExecutor
ROOT = os.path.dirname(os.path.dirname(os.path.abspath(__file__)))
SCR = os.environ.get("VERIF_SCR", "/tmp/mrepo")
def sh(c): return subprocess.run(c, shell=True, capture_output=True, text=True)
# a private copy of the checker: the campaign takes a while and the binary may be rebuilt meanwhile
BIN = tempfile.mkdtemp(prefix="rcxbin") + "/origamilint"; shutil.copy(ROOT + "/bin/origamilint", BIN)
filt = sys.argv[sys.argv.index("-k") + 1] if "-k" in sys.argv else None
claimed = [c["property_id"] for c in json.load(open(ROOT + "/MANIFEST.json"))["checks"]]
sh("git -C /repo worktree prune; [ -d %s ] || git -C /repo worktree add -q --detach %s HEAD" % (SCR, SCR))
head = sh("git -C /repo rev-parse HEAD").stdout.strip()
bad = n = 0
for d in sorted(glob.glob(ROOT + "/refactors/*/")):
    rid = os.path.basename(d.rstrip("/")); own = rid.split("-")[0]
    if filt and filt != own: continue
    meta = json.load(open(d + "meta.json"))
    if meta.get("expect", "silent") != "silent": continue
    applied = False
    for base in (head, meta.get("base"), "3a35781", "b57915b"):
        if not base: continue
        sh("git -C %s checkout -q --detach %s && git -C %s checkout -q -- . && git -C %s clean -fdq" % (SCR, base, SCR, SCR))
        if sh("git -C %s apply %spatch.diff" % (SCR, d)).returncode == 0:
            applied = True; break
    if not applied:
        print("%-8s APPLY-FAILED" % rid); continue
    at = "" if base == head else " (judged at %s)" % base
    def one(p):
        v = tempfile.mkdtemp(prefix="rcx"); os.makedirs(v + "/evidence"); shutil.copy(ROOT + "/known_findings.json", v)
        r = sh("%s -prop %s -tier quick -repo %s -verif %s" % (BIN, p, SCR, v))
        shutil.rmtree(v, ignore_errors=True)
        lines = [l.strip()[:200] for l in (r.stdout + r.stderr).splitlines() if ("rule=" in l and "KNOWN-FINDING" not in l and "NOTE" not in l) or "CHECKER-ERROR" in l]
        return p, r.returncode, lines
    with ThreadPoolExecutor(max_workers=6) as ex:
        for p, rc, lines in ex.map(one, [p for p in claimed if p != own]):
            n += 1
            if rc:
                rec = meta.get("cross_expect", {}).get(p)
                if rec:
                    print("%-8s under %s ALARM%s  (recorded: %s)" % (rid, p, at, rec[:90]))
                    continue
                bad += 1
                print("%-8s under %s ALARM%s" % (rid, p, at))
                for l in lines[:3]: print("      " + l)
sh("git -C %s checkout -q -- . && git -C %s clean -fdq && git -C %s checkout -q --detach %s" % (SCR, SCR, SCR, head))
shutil.rmtree(os.path.dirname(BIN), ignore_errors=True)
print("cross-property runs=%d alarms=%d" % (n, bad))
