#!/usr/bin/env python3
"""Confirm a feature pair: with bad/patch.diff the repo builds, the Go suite passes (except the known always-failing
parser test) and the demonstration FAILS; with good/patch.diff it builds, the suite passes and the demonstration PASSES.
usage: confirm_pair.py <pair-dir> <id>   → /verif/features/<id>/{good,bad}   env CONFIRM_SCR scratch worktree"""
import json, subprocess, sys, os, shutil, re
SCR=os.environ.get("CONFIRM_SCR","/tmp/mrepo"); ENV="export GOFLAGS=-mod=mod GOPROXY=off WT=%s; " % SCR
def sh(cmd, t=1500):
    try:
        r=subprocess.run(ENV+cmd, shell=True, capture_output=True, text=True, timeout=t)
        return r.returncode, (r.stdout+r.stderr)
    except subprocess.TimeoutExpired:
        return 124, "TIMEOUT"
def reset():
    sh("git -C %s checkout -q --detach $(git -C /repo rev-parse HEAD); git -C %s checkout -q -- .; git -C %s clean -fdq" % (SCR,SCR,SCR))
pair, pid = os.path.abspath(sys.argv[1]), sys.argv[2]
res={}
for variant in ("good","bad"):
    reset()
    rc,out=sh("git -C %s apply %s/%s/patch.diff" % (SCR,pair,variant))
    if rc: print(variant,"apply failed",out[-300:]); sys.exit(1)
    rc,out=sh("cd %s && go build ./... 2>&1 | tail -3" % SCR)
    if rc or "rror" in out: print(variant,"BUILD FAILS",out[-300:]); sys.exit(1)
    rc,out=sh("cd %s && go test -vet=off -count=1 ./... 2>&1 | grep -E '^(FAIL|---|ok)' | grep -v 'no test files'" % SCR)
    fails=[l for l in out.splitlines() if l.startswith("--- FAIL") and "TestDiagVendorCompileAuthStringCorrupt" not in l]
    pk=[l for l in out.splitlines() if l.startswith("FAIL") and "origami/parser" not in l and l.strip()!="FAIL"]
    if fails or pk: print(variant,"SUITE FAILS:",fails,pk); sys.exit(1)
    txt=open(pair+"/bad/demo/demo.sh").read()
    txt=re.sub(r"/tmp/seed/wt_[A-Za-z0-9]+", SCR, txt)
    open(pair+"/bad/demo/_confirm.sh","w").write(txt)
    rc,out=sh("cd %s/bad/demo && bash ./_confirm.sh; exit $?" % pair, 600)
    os.remove(pair+"/bad/demo/_confirm.sh")
    res[variant]=(rc,out[-500:])
reset(); sh("cd %s && git clean -fdq" % SCR)
g,b=res["good"],res["bad"]
print("good: demo rc=%d | bad: demo rc=%d" % (g[0],b[0]))
if g[0]==0 and b[0]!=0:
    dst=ROOT=os.path.dirname(os.path.dirname(os.path.abspath(__file__)))+"/features/"+pid
    if os.path.exists(dst): shutil.rmtree(dst)
    shutil.copytree(pair,dst, ignore=shutil.ignore_patterns("*.bin","origami*","harness_bin"))
    head=subprocess.run("git -C /repo rev-parse --short HEAD",shell=True,capture_output=True,text=True).stdout.strip()
    for v in ("good","bad"):
        mp=dst+"/"+v+"/meta.json"
        try: m=json.load(open(mp))
        except Exception: m={}
        m["base"]=head
        m["confirmed"]={"built_and_suite_passed": True, "demo_rc_with_good": g[0], "demo_rc_with_bad": b[0], "demo_tail_with_bad": b[1][-300:]}
        json.dump(m,open(mp,"w"),indent=1,ensure_ascii=False)
    print("kept as",dst)
else:
    print("NOT CONFIRMED"); print(g[1][-300:]); print("----"); print(b[1][-300:]); sys.exit(1)
