# property claims: claim(id, technique, level text, level note, design ref)
NA["C15"] = "every clause is arithmetic on runtime values (index normalisation, optional arguments, callback results); no structural necessary condition that a realistic regression would break — see DESIGN.md §3"
NA["C18"] = "spans, lines and columns are sums over the bytes actually consumed; the candidate structural rules either pin statement order or say nothing about the interpolation paths where drift lives — see DESIGN.md §3"

claim("C10",
      "lockset dataflow (guarded-by) over the AST of package runtime; call-site summaries for unexported helpers; check-then-store atomicity",
      "Decides, for every path of every function in package runtime, that each access to a VM registry map happens under vm.mu (write lock for stores), that lock-free helpers are only called with the lock held, and that a duplicate check and its store share one critical section. This is the synchronisation structure necessary for 'no data race, one winner per name'; linearizability of whole histories is not decided.",
      "trusts sync.RWMutex semantics and the Go type checker; guard table derived from the VM struct (all map fields); closures analysed as entered unlocked; aliasing of two different VM objects ignored",
      "DESIGN.md §2 C10")
