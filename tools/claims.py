# property claims: claim(id, technique, level text, level note, design ref)
NA["C15"] = "every clause is arithmetic on runtime values (index normalisation, optional arguments, callback results); no structural necessary condition that a realistic regression would break — see DESIGN.md §3"
NA["C18"] = "spans, lines and columns are sums over the bytes actually consumed; the candidate structural rules either pin statement order or say nothing about the interpolation paths where drift lives — see DESIGN.md §3"

claim("C10",
      "lockset dataflow (guarded-by) over the AST of package runtime; call-site summaries for unexported helpers; check-then-store atomicity",
      "Decides, for every path of every function in package runtime, that each access to a VM registry map happens under vm.mu (write lock for stores), that lock-free helpers are only called with the lock held, and that a duplicate check and its store share one critical section. This is the synchronisation structure necessary for 'no data race, one winner per name'; linearizability of whole histories is not decided.",
      "trusts sync.RWMutex semantics and the Go type checker; guard table derived from the VM struct (all map fields); closures analysed as entered unlocked; aliasing of two different VM objects ignored",
      "DESIGN.md §2 C10")

claim("C13",
      "typestate dataflow (commit-once flag) over bufferedWriter's methods with computed method summaries; who-may-touch check of the raw writer; pairing check of beginResponse/commitPending",
      "Decides on every path of bufferedWriter's methods that the underlying WriteHeader is reachable only once (tested-false then set-true), that body bytes reach the underlying writer only after the commit, that status/statusSet are frozen after the commit, that a recorded status is marked pending or committed, that the committed code is the recorded status, that nothing outside bufferedWriter touches the raw writer, and that every beginResponse is paired with a deferred commitPending. These make the commit-once clauses hold for every call order; the bytes the client sees and middleware ordering are not decided.",
      "trusts the net/http.ResponseWriter contract; method summaries recomputed each run; single goroutine per response; middleware order clause explicitly not claimed",
      "DESIGN.md §2 C13")

claim("C04",
      "grammar-shape extraction from the recursive-descent expression parser (operator tokens per level, operand callees, loop vs recursion) compared with the embedded operator table; switch-table extraction for token→node constructors",
      "Decides how every expression is grouped: relative order of each adjacent pair of precedence levels, associativity per level, one level per operator, operand level of prefix operators and casts, continuation of the signed-number split, and the token→constructor table (coverage, distinctness, operand order, compound assignments). It does not decide what the evaluator computes for the grouped tree.",
      "assumes the parser stays a recursive-descent ladder (otherwise the check fails with an unresolved anchor rather than a verdict); operators identified by token.TokenDefinitions literals; reference table restates the property statement",
      "DESIGN.md §2 C04")

claim("C03",
      "type-narrowing and zero/sign fact dataflow over the operator nodes (structured abstract interpreter); sibling cross-check of boolean contexts against data.AsBool; conversion-route check (int conversion of a possibly-float operand feeding the result)",
      "Decides the no-crash clause for operators (every operand type assertion is dominated by a type test or uses the comma-ok form; every division's divisor value and every signed shift count is checked on all paths) the context-independence clause of truthiness (every boolean context decides through data.AsBool and none inspects a payload itself), and a necessary condition of int-with-float results (an operand that may be a float is never taken through the truncating int conversion on its way into + - * / or a comparison; the order of two ints is not taken from the sign of their difference). Arithmetic results otherwise, ==/<=> laws and AsBool's own answers are value-level and not decided.",
      "operator node set derived from the constructors; facts killed on assignment; calls assumed not to modify locals; Go panic conditions as oracle",
      "DESIGN.md §2 C03")

claim("C05",
      "path dataflow over TryStatement's methods (finally-region counter with computed method summaries, recover-exit detection), catch-dispatch loop typestate, exit-status reachability at the process boundary",
      "Decides that every exit of the try statement — including the recovered-panic path — has passed the finally region exactly once, that catch clauses are tried in declaration order with the first match leaving the loop and the thrown object bound to the catch variable, and that a failed parse/run or an uncaught control cannot reach a zero exit status. The class-matching relation itself is C08's clause; diagnostic text and output flushing order are not decided.",
      "a defer+recover that assigns named results is modelled as an exit bypassing the body; summaries recomputed each run; main's os.Exit(1) on error is the failing exit",
      "DESIGN.md §2 C05")

claim("C01",
      "difference-bound (zone) abstract interpretation of every index/slice over the source text and token slices, with call-site preconditions, return summaries, object invariants and monotone cursor fields; end-of-input loop evaluation, progress summaries, panic reachability, operand-presence and recursion-guard rules",
      "Decides structural clauses of 'lexing and parsing never crash and always terminate': every index and slice over the source text, its rune/byte copies and the token slices in lexer and parser is proven in bounds on every path (sites safe only by a non-local reason are listed as not armed); the other rules (see evidence) cover loop exit at end of input, progress, reachable panics, missing operands and unguarded recursion. The time bound and the content of diagnostics are not decided.",
      "A-IDX-NONNEG (cursors from calls/fields are non-negative unless computed by subtraction); strings immutable; library models for strings.Index*/utf8.DecodeRune*; assumed table listed in evidence",
      "DESIGN.md §2 C01")

claim("C20",
      "classification of every range over a Go map by the order-sensitivity of its body and of the slices it fills; census of package-level variables written outside init",
      "Decides two structural sources of non-determinism and cross-VM leakage in the interpreter core and the PHP standard library (lexer, parser, token, node, data, runtime, std/php and every package below it, std/serializer/json): (1) every range over a Go map is order-insensitive by shape, has its result sorted, or is a listed finding; (2) every package-level variable written outside init is reviewed (reset per VM, write-once, host configuration) or a listed finding. A package-level map that becomes a field of an object counts as written. Byte-identical output as a whole, time and randomness sources, and map ranges in std packages outside std/php are not decided.",
      "Go's map iteration order is unspecified (language spec); order-insensitive shapes are enumerated in the evidence; calls inside a classified body are assumed not to print or evaluate script code unless they are the known entry points",
      "DESIGN.md §2 C20")

claim("C09",
      "per-path counting of channel operations and closed-flag typestate in Channel's methods; who-may-touch check of the chan field; synchronisation check of the flag",
      "Decides the wrapper discipline that lets the single Go channel's guarantees (exactly once, per-sender FIFO) carry over: one send per successful Send and none on failure, one receive per Receive, the chan field touched only by Channel's methods, closed tested before send/close with a failure result on the closed arm, two-result receive; and reports the flag's missing synchronisation and the check-then-act send/close as findings. Delivery under all interleavings is the Go runtime's guarantee and is not re-proved; deadlock freedom is not decided.",
      "Go channel semantics are trusted; known findings C09-SYNC/C09-SAFE are genuine races witnessed with go test -race",
      "DESIGN.md §2 C09")

claim("C17",
      "table extraction from the switches over reflect kinds; conversion-to-target check of every produced reflect.Value; guard-dominance check of narrowing conversions",
      "Decides that every reflect.Value built for a registered Go parameter is converted to the parameter's type (so no signature of the supported kinds or of named types makes reflect.Call panic), that unsupported parameter kinds end in a catchable error, that numeric result kinds stay numeric, that integer narrowing in the generic argument converters is range-checked with an error arm, that a signed script integer is sign-tested before it becomes an unsigned Go value, and that a Go result is asked IsNil() before Elem(). The converted values themselves, float representability and struct/method registration semantics are not decided.",
      "reflect.Value.Call assignability rule; Go conversion semantics; float-source conversions are treated as ordinary coercion and not judged",
      "DESIGN.md §2 C17")

claim("C19",
      "alias/effect analysis of ClassGeneric's methods (values derived from the shared class declaration must not be stored into or receive receiver-mutating calls); freshness check of the type-argument map; constant-predicate check",
      "Decides the sharing discipline that 'Box<int> never changes what Box<string> accepts' depends on: methods of ClassGeneric are read-only with respect to the shared declaration, each instantiation owns its type-argument map built from its own arguments, and the generic type predicate is not constant (listed as a finding). Acceptance of a particular value is not decided.",
      "method names with a receiver-mutating implementation in node/data are computed on every run; struct copies by value are private; pointer fields inside a copied struct are not followed",
      "DESIGN.md §2 C19")

claim("C14",
      "zone abstract interpretation of the byte-level decoders with the protowire.Consume* contract modelled; success-return/remaining-input check; call-graph cycle check of the depth parameter; allocation-bound check",
      "Decides structural totality clauses of the two hand-written decoders (protobuf wire parser, unserialize): every index/slice of the input is in bounds on every path (each Consume* length is tested before use), success is returned only when no input is left, every recursion cycle passes the depth guard and increments depth, and allocations sized by decoded numbers are bounded by the remaining input. Encoder faithfulness, round trips, which inputs are well-formed, machine-integer overflow and JSON (delegated to encoding/json) are not decided.",
      "protowire.Consume* contract (n <= len(b) or negative); unbounded-integer arithmetic in the zone domain; A-IDX-NONNEG",
      "DESIGN.md §2 C14")

claim("C12",
      "ownership/effect check of TempVM's methods; whole-program call-graph reachability (VTA over go/ssa, module edges) from each delegated base-VM method to the base VM's Add*; parser-binding and table-escape checks",
      "Decides the structure that keeps request-scoped definitions inside their TempVM: Add* write only the TempVM's own tables, no TempVM method delegates to a base-VM method that can reach the base VM's Add* (three existing delegations are listed findings), the TempVM parses with a parser cloned and bound to itself, every lookup consults the base VM, and the private tables never escape. What earlier requests did (histories) and the deliberately shared file cache / constants are not decided.",
      "call graph is VTA refined from CHA, traversed through module functions with closures treated as called by their creator; intentional process-wide registrations listed as assumed",
      "DESIGN.md §2 C12")

claim("C02",
      "control-value dataflow over every evaluator function of package node (structured abstract interpreter: pending/known-non-nil control variables, break/continue arm typestate), level-field use census, parser constructor-argument check, allocation check of CreateContext",
      "Decides the structural clauses of 'every loop exit and return transfers control to exactly the construct it names' and 'locals of one call are never visible to another': a control returned by a child evaluation is tested, returned or passed on before the next evaluation, before it is overwritten and before the function returns; in statement containers a control known to be non-nil is never dropped; each loop's continue arm leaves the statement loop; each loop's/switch's break arm hands back nil or a level-reduced new control, never the break it received; the level of break N / continue N is parsed, stored and read; CreateContext allocates a fresh variable vector. What programs print (conditions, arithmetic, defaults, static locals, switch fall-through) is value-level and not decided.",
      "child evaluations identified by result type data.Control (Context lookups excluded); 'statement container' = node type holding a list of child nodes; expression helpers that suppress errors on purpose (isset/empty/@/??) are outside the swallowed rule; generator resume paths keep level 1; assumed table listed in evidence",
      "DESIGN.md §2 C02")

claim("C06",
      "cell-origin dataflow for every write of (*ZVal).Value in data/node/runtime/std (slot-list origin vs variable slot vs fresh, RefSlotCount guard recognition, one-level summaries for functions that write a cell parameter); sink table check (copy of *ArrayValue before every container store); nested-path detach check",
      "Decides the two structural disciplines that value semantics needs under the repository's shallow-copy design: no in-place write of a cell taken from an array's slot list unless guarded by RefSlotCount > 0, and every store of a value into a variable slot, property, array element or array literal copies an *ArrayValue first (clone copies properties through such a store), and a loop that fills several slots makes the array-capable value it stores inside the loop (one copy in many slots aliases the elements). A violation of either lets a write through one name show through another for some route. It does not decide nested arrays beyond the detach rule (a listed known finding), in-place sort/push internals, or what a program prints.",
      "cell origins recognised syntactically (X.List[i], range over X.List, local aliases `list := X.List`, FindSlotByIntKey); guards recognised as if-conditions on RefSlotCount; SPL object storages tabled as not armed; sink table confirmed by reading",
      "DESIGN.md §2 C06")

claim("C11",
      "census of package-level variables written outside init on the request path (packages node and std/net/http) with a keyed-by-request discharge rule for sync.Map stores; per-entry-point check that the handler runs in a context created for the request",
      "Decides two structural necessary conditions of 'a response depends on its request only': no package-level variable on the request path holds request data (each written variable is per-request keyed, tabled process configuration, or a listed finding with a witness), and every ServeHTTP / middleware entry evaluates the script function in a context it created by CreateContext with the request and response bound into that context. On the pinned tree the nine superglobal caches violate the first and are listed as known findings. Response bytes, schedules and the handler's own logic are not decided.",
      "request path approximated by package membership; writes recognised syntactically (assignment, ++, delete/clear, mutating sync/atomic/bytes methods); values reachable only through objects (static properties, the shared AST) are not covered",
      "DESIGN.md §2 C11")

claim("C07",
      "typestate dataflow over every access-path node (member declaration looked up from outside must pass a GetModifier() test before use; property declaration must pass Types.Is before the incoming value is stored); sibling cross-check of private/protected predicates; presence checks at parameter/return boundaries; abstract-rejection-before-creation check over all object creation sites",
      "Decides which access paths have the enforcement at all: for every Call*/Nullsafe*/IndexExpression node, each member lookup on an object seen from outside or on a class named in the source reaches its use only after its modifier was consulted; static lookups that return a bare value are violations by construction; every property store looks at the declared type on every path; parameter binding and function/method return consult Types.Is; every object creation from a class statement follows the abstract-class rejection and concrete class statements validate abstract methods. 19 sites of the pinned tree fail (static members, callable arrays, private==protected predicate) and are listed as known findings with witnesses. Whether Types.Is and the hierarchy predicate give the right answer for each value is not decided.",
      "access-path nodes selected by type name and printed in evidence; self::/static::/parent:: paths are treated as inside the class for the visibility rule; helper functions that test the modifier of a parameter are summarised",
      "DESIGN.md §2 C07")

claim("C16",
      "field-coverage cross-check between each special handler of the AOT generator and the struct type it is registered for (field reads through selectors, accessor methods, FieldByName literals, whole-node hand-offs); registration/assertion agreement; error-totality of the reflective emitter; re-attachment check for declarations the parser keeps outside the AST",
      "Decides the structural part of 'a construct the generator cannot translate is reported as a compile error, never silently dropped': every special handler reads every content field of its node type (so a field added to a node with a handler cannot vanish from compiled programs), each handler asserts the type it is registered for, the reflective route returns an error for unexported fields, unsupported kinds and route-less nodes, and declarations registered in the VM by the parser are re-attached for every file shape (two listed findings: classes of files without a namespace, and all interfaces, are absent from compiled programs). Equality of compiled and interpreted behaviour needs execution and is not decided.",
      "handler table = the single specialHandlers map literal; run-time-only fields tabled with reasons; a node handed whole to a helper counts as fully read",
      "DESIGN.md §2 C16")

claim("C08",
      "edge-coverage check over the same-package call closure of every subtype decision entry point (extends / implements-of-ancestors / interface-extends read inside a loop or recursion); loop-shape check of method lookup; structure check of the `like` test",
      "Decides that each implementation of the subtype relation (data.Class.Is and its helpers for class, $this and thrown values; node.checkClassIs used by instanceof; every other function of data, node and std/php that steps along the class chain and reads an implements list, e.g. is_a) consults every kind of hierarchy edge — an implementation that never reads an edge kind cannot honour it — that method lookup starts at the runtime class and walks the whole extends chain, and that `like` requires every target method with equal parameter count through an inheriting lookup. These are necessary conditions only: a wrong comparison inside a walk, and the parent::/self::/static:: resolution that depends on runtime context objects, are not decided (observation: self::class yields the runtime class on the pinned tree).",
      "entry points listed by name and resolved through the type checker; closure limited to statically resolved same-package calls",
      "DESIGN.md §2 C08")
