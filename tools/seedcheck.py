#!/usr/bin/env python3
"""Run every confirmed seeded change (/verif/seeded/<id>/patch.diff) through the checker as a source
overlay over /repo's current tree and record which rules report it (meta.json "checker").
usage: seedcheck.py [-k substr]   → prints one line per seed; writes seeded/TABLE.md"""
import json, os, subprocess, sys, tempfile, shutil, glob, re
ROOT = os.path.dirname(os.path.dirname(os.path.abspath(__file__)))
REPO = os.environ.get("VERIF_REPO", "/repo")

def overlay_from_patch(patch, work):
    files = re.findall(r'^\+\+\+ b/(\S+)', open(patch).read(), re.M)
    for rel in files:
        dst = os.path.join(work, "src", rel)
        os.makedirs(os.path.dirname(dst), exist_ok=True)
        src = os.path.join(REPO, rel)
        if os.path.exists(src):
            shutil.copy(src, dst)
    r = subprocess.run(["patch", "-p1", "-s", "-f", "-d", os.path.join(work, "src"), "-i", patch], capture_output=True, text=True)
    if r.returncode != 0:
        return None
    ov = {}
    for rel in files:
        p = os.path.join(work, "src", rel)
        if os.path.exists(p):
            ov[os.path.join(REPO, rel)] = open(p, encoding="utf-8").read()
    return ov

def main():
    filt = sys.argv[sys.argv.index("-k") + 1] if "-k" in sys.argv else None
    rows = []
    for d in sorted(glob.glob(ROOT + "/seeded/*/")):
        sid = os.path.basename(d.rstrip("/"))
        if filt and filt not in sid:
            continue
        meta = json.load(open(d + "meta.json"))
        prop = meta.get("property", sid.split("-")[0])
        work = tempfile.mkdtemp(prefix="seedcheck-", dir=os.path.join(ROOT, "evidence"))
        try:
            ov = overlay_from_patch(d + "patch.diff", work)
            if ov is None:
                # the tree moved on (a later fix rewrote the code): judge the seed on a scratch worktree at its base commit
                base = meta.get("confirmed", {}).get("base_commit")
                res = {"status": "patch-does-not-apply-to-current-tree", "rules": []}
                if base:
                    scr = os.environ.get("SEED_SCR", "/tmp/mrepo")
                    subprocess.run("git -C /repo worktree prune; [ -d %s ] || git -C /repo worktree add -q --detach %s HEAD" % (scr, scr), shell=True)
                    subprocess.run("git -C %s checkout -q --detach %s && git -C %s checkout -q -- . && git -C %s clean -fdq" % (scr, base, scr, scr), shell=True)
                    a = subprocess.run(["git", "-C", scr, "apply", d + "patch.diff"], capture_output=True, text=True)
                    if a.returncode == 0:
                        os.makedirs(work + "/v/evidence")
                        shutil.copy(ROOT + "/known_findings.json", work + "/v")
                        r = subprocess.run([ROOT + "/bin/origamilint", "-prop", prop, "-tier", "quick", "-repo", scr, "-verif", work + "/v"], capture_output=True, text=True)
                        out = r.stdout + r.stderr
                        rules = sorted(set(re.findall(r'rule=(\S+)', "\n".join(l for l in out.splitlines() if "rule=" in l and "KNOWN-FINDING" not in l))))
                        res = {"status": ("detected" if r.returncode == 1 and rules else "missed") + "@" + base, "rules": rules}
                    subprocess.run("git -C %s checkout -q -- . && git -C %s clean -fdq && git -C %s checkout -q --detach $(git -C /repo rev-parse HEAD)" % (scr, scr, scr), shell=True)
            else:
                os.makedirs(work + "/v/evidence")
                shutil.copy(ROOT + "/known_findings.json", work + "/v")
                json.dump(ov, open(work + "/ov.json", "w"))
                r = subprocess.run([ROOT + "/bin/origamilint", "-prop", prop, "-tier", "quick", "-repo", REPO, "-verif", work + "/v", "-overlay", work + "/ov.json"], capture_output=True, text=True)
                out = r.stdout + r.stderr
                rules = sorted(set(re.findall(r'rule=(\S+)', "\n".join(l for l in out.splitlines() if "rule=" in l and "KNOWN-FINDING" not in l))))
                if "load/type errors" in out:
                    res = {"status": "does-not-type-check-on-current-tree", "rules": []}
                else:
                    res = {"status": "detected" if r.returncode == 1 and rules else "missed", "rules": rules}
                if res["status"] == "missed":
                    # not reported by its own property's check: is it reported by another claimed check?
                    claimed = [c["property_id"] for c in json.load(open(ROOT + "/MANIFEST.json"))["checks"]]
                    others = []
                    for op in claimed:
                        if op == prop:
                            continue
                        shutil.rmtree(work + "/v/evidence", ignore_errors=True); os.makedirs(work + "/v/evidence")
                        r2 = subprocess.run([ROOT + "/bin/origamilint", "-prop", op, "-tier", "quick", "-repo", REPO, "-verif", work + "/v", "-overlay", work + "/ov.json"], capture_output=True, text=True)
                        o2 = r2.stdout + r2.stderr
                        if r2.returncode == 1:
                            others += sorted(set(re.findall(r'rule=(\S+)', "\n".join(l for l in o2.splitlines() if "rule=" in l and "KNOWN-FINDING" not in l))))
                    if others:
                        res = {"status": "missed-by-own-check, detected-by-other", "rules": others}
        finally:
            shutil.rmtree(work, ignore_errors=True)
        head = subprocess.run(["git", "-C", REPO, "rev-parse", "--short", "HEAD"], capture_output=True, text=True).stdout.strip()
        res["repo_commit"] = head
        meta["checker"] = res
        json.dump(meta, open(d + "meta.json", "w"), indent=1, ensure_ascii=False)
        print("%-8s %-40s %s" % (sid, res["status"], ",".join(res["rules"])))
        rows.append((sid, prop, res, meta.get("summary", "")))
    if not filt:
        with open(ROOT + "/seeded/TABLE.md", "w") as f:
            f.write("| seed | property | checker verdict | rules that report it | change |\n|---|---|---|---|---|\n")
            for sid, prop, res, summ in rows:
                f.write("| %s | %s | %s | %s | %s |\n" % (sid, prop, res["status"], ", ".join(res["rules"]) or "—", summ.replace("|", "/").replace("\n", " ")[:160]))
main()
