#!/usr/bin/env python3
"""Checker self-test: apply single-edit mutants (and behaviour-preserving variants) to a scratch
worktree of /repo and check that the named rule fires (or stays silent).

usage: mutest.py [-k substring] [--keep]
Corpus: /verif/lint/mutants/*.json  — list of {id, prop, file, old, new, expect: "RULE"|"silent", note}
The scratch worktree is /tmp/mrepo (created from /repo HEAD, reset before each mutant)."""
import json, subprocess, sys, os, glob, tempfile, shutil
ROOT = os.path.dirname(os.path.dirname(os.path.abspath(__file__)))
SCR = os.environ.get("VERIF_SCR", "/tmp/mrepo")
def sh(cmd, **kw):
    return subprocess.run(cmd, shell=True, capture_output=True, text=True, **kw)
def ensure():
    if not os.path.isdir(SCR):
        r = sh("git -C /repo worktree prune; git -C /repo worktree add -q --detach %s HEAD" % SCR)
        if r.returncode: print(r.stderr); sys.exit(2)
    sh("git -C %s checkout -q --detach $(git -C /repo rev-parse HEAD) && git -C %s checkout -q -- . && git -C %s clean -fdq" % (SCR, SCR, SCR))
    # carry over uncommitted changes of /repo, if any
    d = sh("git -C /repo diff HEAD").stdout
    if d.strip():
        p = subprocess.run("git -C %s apply" % SCR, shell=True, input=d, text=True)
def main():
    filt = None
    args = sys.argv[1:]
    if "-k" in args: filt = args[args.index("-k")+1]
    ensure()
    vtmp = tempfile.mkdtemp(prefix="mverif")
    os.makedirs(vtmp + "/evidence")
    shutil.copy(ROOT + "/known_findings.json", vtmp)
    corpus = []
    for f in sorted(glob.glob(ROOT + "/lint/mutants/*.json")):
        corpus += json.load(open(f))
    bad = 0; n = 0
    for m in corpus:
        if filt and filt not in m["id"] and filt not in m["prop"]: continue
        n += 1
        path = os.path.join(SCR, m["file"])
        src = open(path).read()
        if src.count(m["old"]) < 1:
            print("SKIP  %-40s anchor text not found" % m["id"]); continue
        open(path, "w").write(src.replace(m["old"], m["new"]) if m.get("replace_all") else src.replace(m["old"], m["new"], 1))
        saved = []
        for ex in m.get("extra", []):
            xp = os.path.join(SCR, ex["file"]); xs = open(xp).read(); saved.append((xp, xs if xp != path else None))
            cur = open(xp).read()
            open(xp, "w").write(cur.replace(ex["old"], ex["new"], 1))
        r = sh("%s/bin/origamilint -prop %s -tier %s -repo %s -verif %s" % (ROOT, m["prop"], m.get("tier", "quick"), SCR, vtmp))
        for xp, xs in saved:
            if xs is not None: open(xp, "w").write(xs)
        open(path, "w").write(src)
        out = r.stdout + r.stderr
        fired = [l for l in out.splitlines() if "rule=" in l and "KNOWN-FINDING" not in l and "NOTE" not in l]
        if m["expect"] == "silent":
            ok = r.returncode == 0
        else:
            ok = r.returncode == 1 and any(("rule=" + m["expect"]) in l for l in fired)
        if "CHECKER-ERROR" in out and m["expect"] != "error":
            ok = ok and m.get("allow_error", False)
        print("%s %-40s expect=%-14s rc=%d %s" % ("ok  " if ok else "FAIL", m["id"], m["expect"], r.returncode, "" if ok else "\n      " + "\n      ".join(out.splitlines()[-6:])))
        if not ok: bad += 1
    shutil.rmtree(vtmp)
    print("mutants run=%d failed=%d" % (n, bad))
    sys.exit(1 if bad else 0)
main()
