#!/usr/bin/env python3
"""Feature-addition pairs: <dir>/good/patch.diff must keep EVERY claimed check silent, <dir>/bad/patch.diff must be
reported (by the pair's own property check, or at least by some check).
usage: pairtest.py [-own] <pair-dir>…   (default: /verif/features/*)   env VERIF_SCR scratch worktree"""
import json, os, subprocess, sys, glob, tempfile, shutil
from concurrent.futures import ThreadPoolExecutor
ROOT = os.path.dirname(os.path.dirname(os.path.abspath(__file__)))
SCR = os.environ.get("VERIF_SCR", "/tmp/mrepo")
def sh(c): return subprocess.run(c, shell=True, capture_output=True, text=True)
args = [a for a in sys.argv[1:] if not a.startswith("-")]
own_only = "-own" in sys.argv
dirs = args or sorted(glob.glob(ROOT + "/features/*/"))
claimed = [c["property_id"] for c in json.load(open(ROOT + "/MANIFEST.json"))["checks"]]
sh("git -C /repo worktree prune; [ -d %s ] || git -C /repo worktree add -q --detach %s HEAD" % (SCR, SCR))
head = sh("git -C /repo rev-parse HEAD").stdout.strip()
def run(p):
    v = tempfile.mkdtemp(prefix="pt"); os.makedirs(v + "/evidence"); shutil.copy(ROOT + "/known_findings.json", v)
    r = sh("%s/bin/origamilint -prop %s -tier quick -repo %s -verif %s" % (ROOT, p, SCR, v))
    shutil.rmtree(v, ignore_errors=True)
    lines = [l.strip()[:230] for l in (r.stdout + r.stderr).splitlines() if ("rule=" in l and "KNOWN-FINDING" not in l and "NOTE" not in l) or "CHECKER-ERROR" in l]
    return p, r.returncode, lines
bad_silent = good_alarm = 0
for d in dirs:
    d = os.path.abspath(d); name = os.path.basename(d.rstrip("/")); own = name.split("_")[-1].split("-")[0]
    for variant in ("good", "bad"):
        pd = "%s/%s/patch.diff" % (d, variant)
        if not os.path.exists(pd): continue
        meta = {}
        try: meta = json.load(open("%s/%s/meta.json" % (d, variant)))
        except Exception: pass
        applied = False
        for base in (head, meta.get("base")):
            if not base: continue
            sh("git -C %s checkout -q --detach %s && git -C %s checkout -q -- . && git -C %s clean -fdq" % (SCR, base, SCR, SCR))
            if sh("git -C %s apply %s" % (SCR, pd)).returncode == 0:
                applied = True; break
        if not applied:
            print("%-10s %-4s APPLY-FAILED" % (name, variant)); continue
        props = [own] if (own_only and variant == "bad") else claimed
        with ThreadPoolExecutor(max_workers=6) as ex:
            res = list(ex.map(run, props))
        alarms = [(p, lines) for p, rc, lines in res if rc]
        if variant == "good":
            exp = meta.get("expect", "silent")
            if alarms:
                good_alarm += exp == "silent"
                print("%-10s good ALARM under %s%s" % (name, ",".join(p for p, _ in alarms), "" if exp == "silent" else "  (recorded: %s)" % exp))
                for p, lines in alarms:
                    for l in lines[:3]: print("      [%s] %s" % (p, l))
            else:
                print("%-10s good SILENT (all %d checks)" % (name, len(props)))
        else:
            ownhit = [p for p, _ in alarms if p == own]
            rules = sorted({l.split("rule=")[1].split()[0] for p, ls in alarms for l in ls if "rule=" in l})
            if ownhit: print("%-10s bad  detected            %s" % (name, ",".join(rules)))
            elif alarms: print("%-10s bad  detected-by-other   %s" % (name, ",".join(rules)))
            elif meta.get("expect") == "missed":
                print("%-10s bad  not reported (recorded: %s)" % (name, meta.get("expect_reason", "")[:100]))
            else:
                bad_silent += 1; print("%-10s bad  MISSED" % name)
sh("git -C %s checkout -q -- . && git -C %s clean -fdq && git -C %s checkout -q --detach %s" % (SCR, SCR, SCR, head))
print("good-with-unexpected-alarm=%d bad-missed=%d" % (good_alarm, bad_silent))
