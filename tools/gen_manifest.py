#!/usr/bin/env python3
"""Regenerates /verif/MANIFEST.json from the table below. Claimed = has an entry in CLAIMED."""
import json, os, sys
ROOT = os.path.dirname(os.path.dirname(os.path.abspath(__file__)))
ALL = ["C%02d" % i for i in range(1, 21)]

CLAIMED = {}
NA = {}
def claim(pid, technique, text, note, design):
    CLAIMED[pid] = dict(technique=technique, text=text, note=note, design=design)

exec(open(os.path.join(ROOT, "tools", "claims.py")).read())

checks = []
for pid in ALL:
    if pid in CLAIMED:
        c = CLAIMED[pid]
        checks.append({
            "property_id": pid,
            "quick_cmd": "./run.sh %s quick" % pid,
            "thorough_cmd": "./run.sh %s thorough" % pid,
            "evidence_file": "/verif/evidence/%s.json" % pid,
            "replay_cmd_template": "./run.sh %s quick  # violations are listed construct by construct in {path}" % pid,
            "engine": "origamilint",
            "level_claimed": {"category": "other", "text": c["text"], "design_ref": c["design"]},
            "level_note": c["note"],
            "technique": c["technique"],
        })
na = [{"property_id": p, "reason": NA.get(p, "no check built yet for this property; see DESIGN.md")} for p in ALL if p not in CLAIMED]
m = {
    "version": 1,
    "setup_cmd": "./setup.sh",
    "hooks": {"guard": "verif", "enable": "none needed: the checks read source only (no instrumentation in /repo)",
              "baseline_off_cmd": "./tools/baseline.sh", "source_commits": [], "add_only": True},
    "engines": [{"name": "origamilint", "path": "/verif/lint", "serves_properties": sorted(CLAIMED),
                 "kind_free_text": "repository-specific static analyser (go/packages + go/types + structured abstract interpreter over the AST + go/ssa call graph); reads /repo's working tree on every run, never executes it"}],
    "checks": checks,
    "not_applicable": na,
    "notes": "Technique family: static analysis only. Every claimed check decides named structural necessary conditions of its property (level 'other'), not the behaviour itself; see DESIGN.md. Genuine defects found are in known_findings.json (status known|fixed).",
}
json.dump(m, open(os.path.join(ROOT, "MANIFEST.json"), "w"), indent=1)
print("claimed:", sorted(CLAIMED), "n/a:", [x["property_id"] for x in na])
