#!/usr/bin/env python3
"""Run the registered checks against seeded changes.
usage: seedtest.py <dir-with-<n>/patch.diff+meta.json> ...   (e.g. /tmp/seed/out_C10 or /verif/seeded)
Each patch is applied to the scratch worktree /tmp/mrepo (reset to /repo HEAD first), the check of
its property (and optionally others, -a) is run with -repo /tmp/mrepo, and the verdict printed."""
import json, subprocess, sys, os, glob, tempfile, shutil
ROOT = os.path.dirname(os.path.dirname(os.path.abspath(__file__)))
SCR = os.environ.get("VERIF_SCR", "/tmp/mrepo")
def sh(cmd):
    return subprocess.run(cmd, shell=True, capture_output=True, text=True)
def reset():
    if not os.path.isdir(SCR):
        sh("git -C /repo worktree prune; git -C /repo worktree add -q --detach %s HEAD" % SCR)
    sh("git -C %s checkout -q --detach $(git -C /repo rev-parse HEAD); git -C %s checkout -q -- .; git -C %s clean -fdq" % (SCR, SCR, SCR))
allprops = "-a" in sys.argv
dirs = [a for a in sys.argv[1:] if not a.startswith("-")]
vtmp = tempfile.mkdtemp(prefix="sverif"); os.makedirs(vtmp + "/evidence"); shutil.copy(ROOT + "/known_findings.json", vtmp)
claimed = [c["property_id"] for c in json.load(open(ROOT + "/MANIFEST.json"))["checks"]]
for d in dirs:
    for pd in sorted(glob.glob(d + "/*/patch.diff")):
        case = os.path.dirname(pd)
        meta = json.load(open(case + "/meta.json")) if os.path.exists(case + "/meta.json") else {}
        prop = meta.get("property") or os.path.basename(os.path.dirname(case)).replace("out_", "")
        reset()
        r = sh("git -C %s apply %s" % (SCR, pd))
        if r.returncode:
            print("%-28s APPLY-FAILED %s" % (case, r.stderr.strip()[:100])); continue
        props = claimed if allprops else [prop]
        res = []
        for p in props:
            if p not in claimed:
                res.append("%s:not-claimed" % p); continue
            r = sh("%s/bin/origamilint -prop %s -repo %s -verif %s" % (ROOT, p, SCR, vtmp))
            out = r.stdout + r.stderr
            rules = sorted(set(l.split("rule=")[1].split()[0] for l in out.splitlines() if "rule=" in l and "KNOWN-FINDING" not in l and not l.startswith("NOTE")))
            tag = "DETECTED" if r.returncode == 1 else ("ERROR" if r.returncode else "missed")
            if r.returncode == 1 or not allprops:
                res.append("%s:%s%s" % (p, tag, (" " + ",".join(rules)) if rules else ""))
        print("%-28s %s   | %s" % (case.replace("/tmp/seed/", ""), "; ".join(res) or "missed", meta.get("summary", "")[:90]))
reset()
shutil.rmtree(vtmp)
