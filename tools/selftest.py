#!/usr/bin/env python3
"""Thorough tier, second half: sensitivity of the checker on today's tree.

For every single-edit variant recorded in lint/mutants/<prop>.json the edited file content is handed
to the checker as a go/packages overlay over /repo's CURRENT working tree (nothing is copied, nothing
is written into /repo) and the named rule must report a violation (or stay silent for the
behaviour-preserving variants). A variant whose anchor text no longer exists in the tree is skipped
and counted; a variant that applies and is not detected prints CHECKER-WARNING (exit status stays
that of the real tree; --strict turns it into exit 2), never a property violation.  The result is added to evidence/<prop>.json under coverage.selftest.

usage: selftest.py <Cxx> [repo]"""
import json, os, subprocess, sys, tempfile, shutil, glob, re
from concurrent.futures import ThreadPoolExecutor

ROOT = os.path.dirname(os.path.dirname(os.path.abspath(__file__)))

def main():
    args = [a for a in sys.argv[1:] if not a.startswith("--")]
    prop = args[0]
    repo = args[1] if len(args) > 1 else os.environ.get("VERIF_REPO", "/repo")
    corpus = []
    for f in sorted(glob.glob(ROOT + "/lint/mutants/*.json")):
        corpus += [m for m in json.load(open(f)) if m["prop"] == prop]
    # multi-hunk variants: the confirmed seeded changes (must be reported) and the behaviour-preserving
    # refactorings (must stay silent), each as a patch applied to copies of the files it touches
    for d in sorted(glob.glob(ROOT + "/seeded/%s-*/" % prop)):
        try:
            meta = json.load(open(d + "meta.json"))
        except Exception:
            continue
        if meta.get("checker", {}).get("status", "").startswith("missed"):
            continue  # recorded in DESIGN.md as undetected on purpose
        corpus.append({"id": "seed:" + os.path.basename(d.rstrip("/")), "prop": prop, "patch": d + "patch.diff", "expect": "any"})
    for d in sorted(glob.glob(ROOT + "/refactors/%s-*/" % prop)):
        try:
            if json.load(open(d + "meta.json")).get("expect", "silent") != "silent":
                continue  # recorded as not silent (reason in its meta.json and in DESIGN.md)
        except Exception:
            pass
        corpus.append({"id": "refactor:" + os.path.basename(d.rstrip("/")), "prop": prop, "patch": d + "patch.diff", "expect": "silent"})
    # feature pairs: the same small feature done right (silent) and with a slip in the new code (reported)
    for d in sorted(glob.glob(ROOT + "/features/%s/" % prop) + glob.glob(ROOT + "/features/%s-*/" % prop)):
        tag = os.path.basename(d.rstrip("/"))
        for variant, expect in (("good", "silent"), ("bad", "any")):
            try:
                meta = json.load(open(d + variant + "/meta.json"))
            except Exception:
                meta = {}
            if meta.get("expect", "") in ("missed", "alarm-false", "not-judged"):
                continue  # recorded with its reason in meta.json and DESIGN.md
            if os.path.exists(d + variant + "/patch.diff"):
                corpus.append({"id": "feature:%s-%s" % (tag, variant), "prop": prop, "patch": d + variant + "/patch.diff", "expect": expect})
    work = tempfile.mkdtemp(prefix="selftest-", dir=os.path.join(ROOT, "evidence"))
    try:
        results = run_all(prop, repo, corpus, work)
    finally:
        shutil.rmtree(work, ignore_errors=True)
    detected = [r for r in results if r["status"] == "detected"]
    silent = [r for r in results if r["status"] == "silent-ok"]
    skipped = [r for r in results if r["status"] == "skipped"]
    missed = [r for r in results if r["status"] == "missed"]
    print("SELFTEST property=%s variants=%d detected=%d silent_ok=%d skipped=%d undetected=%d" % (
        prop, len(results), len(detected), len(silent), len(skipped), len(missed)))
    ev = os.path.join(ROOT, "evidence", prop + ".json")
    try:
        e = json.load(open(ev))
        e.setdefault("coverage", {})["selftest"] = {
            "what": "variants of the current tree analysed through a source overlay: single edits (the named rule must report), confirmed seeded changes (some rule must report), behaviour-preserving refactorings (no rule may report); patches that no longer apply to the current tree are skipped and counted",
            "variants": len(results), "detected": len(detected), "silent_ok": len(silent),
            "skipped_anchor_text_gone": [r["id"] for r in skipped],
            "undetected": [r["id"] for r in missed],
            "samples": [{"id": r["id"], "expect": r["expect"], "reported": r.get("reported", "")[:200]} for r in detected[:5]],
        }
        json.dump(e, open(ev, "w"), indent=1, ensure_ascii=False)
    except Exception as x:  # evidence must stay valid; never fail the check for this
        print("NOTE: selftest could not extend evidence: %s" % x)
    strict = "--strict" in sys.argv
    for r in missed:
        print("%s: selftest variant %s (expect %s) was not detected: %s" % ("CHECKER-ERROR" if strict else "CHECKER-WARNING", r["id"], r["expect"], r.get("tail", "")))
    # the verdict on the property is the real tree's alone: an edited tree can legitimately turn a
    # recorded variant into harmless code; the strict form is what is run before committing /verif
    sys.exit(2 if (missed and strict) else 0)

def overlay_from_patch(patch, repo, work):
    """Apply a patch to copies of the files it names; returns {path in repo: new content} or None."""
    text = open(patch, encoding="utf-8").read()
    files = re.findall(r'^\+\+\+ b/(\S+)', text, re.M)
    if re.search(r'^deleted file mode', text, re.M):
        return None
    src = os.path.join(work, "src")
    for rel in files:
        dst = os.path.join(src, rel)
        os.makedirs(os.path.dirname(dst), exist_ok=True)
        if os.path.exists(os.path.join(repo, rel)):
            shutil.copy(os.path.join(repo, rel), dst)
    r = subprocess.run(["patch", "-p1", "-s", "-f", "-F0", "-d", src, "-i", patch], capture_output=True, text=True)
    if r.returncode != 0:
        return None
    ov = {}
    for rel in files:
        p = os.path.join(src, rel)
        if os.path.exists(p) and rel.endswith(".go"):
            ov[os.path.join(repo, rel)] = open(p, encoding="utf-8").read()
    return ov

def run_all(prop, repo, corpus, work):
    def one(ix_m):
        ix, m = ix_m
        files = {}
        def edit(rel, old, new, all_=False):
            path = os.path.join(repo, rel)
            src = files.get(path)
            if src is None:
                src = open(path, encoding="utf-8").read()
            if old not in src:
                return False
            files[path] = src.replace(old, new) if all_ else src.replace(old, new, 1)
            return True
        try:
            if "patch" in m:
                ov = overlay_from_patch(m["patch"], repo, os.path.join(work, "p%d" % ix))
                ok = ov is not None
                if ok:
                    files.update(ov)
            else:
                ok = edit(m["file"], m["old"], m["new"], m.get("replace_all", False))
                for ex in m.get("extra", []):
                    ok = ok and edit(ex["file"], ex["old"], ex["new"])
        except FileNotFoundError:
            ok = False
        if not ok:
            return {"id": m["id"], "expect": m["expect"], "status": "skipped"}
        vdir = os.path.join(work, "v%d" % ix)
        os.makedirs(os.path.join(vdir, "evidence"))
        shutil.copy(os.path.join(ROOT, "known_findings.json"), vdir)
        ov = os.path.join(vdir, "overlay.json")
        json.dump(files, open(ov, "w"))
        r = subprocess.run([os.path.join(ROOT, "bin", "origamilint"), "-prop", prop, "-tier", "quick", "-repo", repo,
                            "-verif", vdir, "-overlay", ov], capture_output=True, text=True)
        out = r.stdout + r.stderr
        shutil.rmtree(vdir, ignore_errors=True)
        fired = [l for l in out.splitlines() if "rule=" in l and "KNOWN-FINDING" not in l]
        res = {"id": m["id"], "expect": m["expect"]}
        if m["expect"] == "silent":
            res["status"] = "silent-ok" if r.returncode == 0 else "missed"
        else:
            want = "rule=" if m["expect"] == "any" else "rule=" + m["expect"]
            hit = [l for l in fired if want in l]
            good = r.returncode == 1 and hit
            if "CHECKER-ERROR" in out and not m.get("allow_error", False):
                # a variant that no longer type-checks on today's tree is not a sensitivity result
                if "load/type errors" in out:
                    res["status"] = "skipped"
                    return res
                good = False
            res["status"] = "detected" if good else "missed"
            if hit:
                res["reported"] = hit[0].strip()
        if res["status"] == "missed":
            res["tail"] = " | ".join(out.splitlines()[-3:])
        return res
    with ThreadPoolExecutor(max_workers=6) as ex:
        return list(ex.map(one, enumerate(corpus)))

main()
