import os
#!/usr/bin/env python3
"""Confirm a seeded change: with the patch the repo builds, the Go suite passes (except the known
always-failing parser test) and the demonstration fails; without it the demonstration passes.
usage: confirm_seed.py <case-dir> <seed-id>   (demo_cmd taken from meta.json, worktree paths rewritten to /tmp/mrepo)
On success copies the case to /verif/seeded/<seed-id>/ and records what was run."""
import json, subprocess, sys, os, shutil, re
SCR=os.environ.get("CONFIRM_SCR","/tmp/mrepo"); ENV="export GOFLAGS=-mod=mod GOPROXY=off WT=%s; " % SCR
def sh(cmd, t=900):
    try:
        r=subprocess.run(ENV+cmd, shell=True, capture_output=True, text=True, timeout=t)
        return r.returncode, (r.stdout+r.stderr)
    except subprocess.TimeoutExpired:
        return 124, "TIMEOUT"
def reset():
    base = os.environ.get("SEED_BASE", "HEAD")  # seeds made before a later fix are confirmed at their base commit
    sh("git -C %s checkout -q --detach $(git -C /repo rev-parse %s); git -C %s checkout -q -- .; git -C %s clean -fdq" % (SCR,base,SCR,SCR))
case, sid = sys.argv[1], sys.argv[2]
meta=json.load(open(case+"/meta.json"))
demo=re.sub(r"/tmp/seed/wt_[A-Za-z0-9]+", SCR, meta["demo_cmd"])
demo=re.sub(r"\s*\((remove|also works)[^)]*\)\s*", " ", demo)
demo=demo.split("   (")[0]
reset()
rc,out=sh("git -C %s apply %s/patch.diff" % (SCR,case))
if rc: print("apply failed", out); sys.exit(1)
rc,out=sh("cd %s && go build ./... 2>&1 | tail -3" % SCR)
if "rror" in out or rc: print("BUILD FAILS with patch:", out[-300:]); sys.exit(1)
rc,out=sh("cd %s && go test -vet=off -count=1 ./... 2>&1 | grep -E '^(FAIL|---|ok)' | grep -v 'no test files'" % SCR, 1500)
fails=[l for l in out.splitlines() if l.startswith("--- FAIL") and "TestDiagVendorCompileAuthStringCorrupt" not in l]
pk=[l for l in out.splitlines() if l.startswith("FAIL") and "origami/parser" not in l and l.strip()!="FAIL"]
if fails or pk: print("SUITE FAILS with patch:", fails, pk); sys.exit(1)
script = os.path.exists(case+"/demo/expected.txt") and os.path.exists(case+"/demo/demo.zy")
shscript = os.path.exists(case+"/demo/demo.sh")
if script:
    demo = "cd %s && go build -o /tmp/mrepo_bin . && cd %s/demo && (ulimit -v 4000000; timeout -s KILL 20 /tmp/mrepo_bin demo.zy > /tmp/mrepo_out.txt 2>&1; diff -q /tmp/mrepo_out.txt expected.txt >/dev/null && echo SAME || (echo FAIL-DIFFERS; head -20 /tmp/mrepo_out.txt))" % (SCR, case)
elif shscript:
    # demo.sh scripts reference their own worktree/binary: rewrite to the scratch worktree
    txt=open(case+"/demo/demo.sh").read()
    txt=re.sub(r"/tmp/seed/wt_[A-Za-z0-9]+", SCR, txt)
    open(case+"/demo/_confirm.sh","w").write(txt)
    demo = "cd %s/demo && bash ./_confirm.sh; rc=$?; exit $rc" % case
rc1,out1=sh(demo, 600)
reset()
rc2,out2=sh(demo, 600)
reset()
sh("cd %s && git clean -fdq" % SCR)
bad1 = rc1!=0 or "FAIL" in out1 or "panic" in out1 or "DATA RACE" in out1
bad2 = rc2!=0 or "FAIL" in out2 or "panic:" in out2 or "DATA RACE" in out2
print("with patch: rc=%d %s" % (rc1, "FAILS" if bad1 else "passes"), "| without: rc=%d %s" % (rc2, "FAILS" if bad2 else "passes"))
if os.path.exists(case+"/demo/_confirm.sh"): os.remove(case+"/demo/_confirm.sh")
if bad1 and not bad2:
    dst="/verif/seeded/"+sid
    if os.path.exists(dst): shutil.rmtree(dst)
    shutil.copytree(case, dst)
    meta["confirmed"]={"built_and_suite_passed_with_patch": True, "demo_cmd_run": demo, "demo_with_patch_tail": out1[-600:], "demo_without_patch_tail": out2[-300:], "base_commit": subprocess.run("git -C /repo rev-parse --short "+os.environ.get("SEED_BASE","HEAD"),shell=True,capture_output=True,text=True).stdout.strip()}
    json.dump(meta, open(dst+"/meta.json","w"), indent=1, ensure_ascii=False)
    print("kept as", dst)
else:
    print("NOT CONFIRMED"); print(out1[-500:]); print("----"); print(out2[-300:]); sys.exit(1)
