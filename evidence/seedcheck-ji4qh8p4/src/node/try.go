package node

import (
	"fmt"
	"runtime/debug"
	"strings"

	"github.com/php-any/origami/data"
)

type CatchBlock struct {
	ExceptionType data.Types
	Variable      data.Variable
	Body          []data.GetValue
}

type TryStatement struct {
	*Node        `pp:"-"`
	TryBlock     []data.GetValue
	CatchBlocks  []CatchBlock
	FinallyBlock []data.GetValue
}

func (t *TryStatement) GetValue(ctx data.Context) (v data.GetValue, c data.Control) {
	v, c = t.runProtected(func() (data.GetValue, data.Control) { return t.runTryBlock(ctx) })

	if c != nil {
		thrown := c
		v, c = t.runProtected(func() (data.GetValue, data.Control) { return t.tryValue(ctx, thrown) })
	}

	// finally 在任何离开 try 的路径上都执行（包括 Go 级 panic 被转换成异常的路径）
	if fc := t.runFinally(ctx); fc != nil {
		// finally 自己抛出的异常取代原来的控制流。
		// 但 finally 里的 return / break / continue 不应该把一个还没有人处理的异常悄悄吞掉：
		// 异常继续向外传播，交给外层的 catch（或者作为未捕获异常终止脚本）。
		if pending, ok := c.(*data.ThrowValue); ok {
			if _, thrown := fc.(*data.ThrowValue); !thrown {
				return nil, pending
			}
		}
		return nil, fc
	}

	return v, c
}

// runFinally 执行 finally 块；返回块内产生的控制流（return / break / continue / throw），正常执行完返回 nil。
func (t *TryStatement) runFinally(ctx data.Context) data.Control {
	for _, statement := range t.FinallyBlock {
		if _, fc := statement.GetValue(ctx); fc != nil {
			return fc
		}
	}
	return nil
}

// runTryBlock 顺序执行 try 块，遇到控制流即停止。
func (t *TryStatement) runTryBlock(ctx data.Context) (v data.GetValue, c data.Control) {
	for _, statement := range t.TryBlock {
		v, c = statement.GetValue(ctx)
		if c != nil {
			if add, ok := c.(data.AddStack); ok {
				add.AddStackWithInfo(statement.(GetFrom).GetFrom(), "try: ", TryGetCallClassName(statement))
			}
			break
		}
	}
	return v, c
}

// runProtected 运行 fn；Go 作用域的 panic 被转换为可捕获的异常返回，
// 调用方随后照常进行 catch 分发并执行 finally。
func (t *TryStatement) runProtected(fn func() (data.GetValue, data.Control)) (v data.GetValue, c data.Control) {
	defer func() {
		if r := recover(); r != nil {
			stack := string(debug.Stack())
			v, c = nil, data.NewErrorThrow(t.from, fmt.Errorf("go作用域异常退出的 panic(%v)\nstack: %s", r, stack))
		}
	}()
	return fn()
}

func catchTypeMatches(exceptionType data.Types, cv *data.ThrowValue) bool {
	if exceptionType == nil {
		return false
	}
	if exceptionType.Is(cv) {
		return true
	}
	// catch (Throwable)：PHP 捕获所有 Error/Exception 子类；extend 链未挂上 Throwable 时回退到 Exception 判断
	if classType, ok := exceptionType.(data.Class); ok && isThrowableTypeName(classType.Name) {
		return data.NewBaseType("Exception").Is(cv) || data.NewBaseType("Error").Is(cv)
	}
	return false
}

func isThrowableTypeName(name string) bool {
	return name == "Throwable" || strings.HasSuffix(name, "\\Throwable")
}

func (t *TryStatement) tryValue(ctx data.Context, c data.Control) (data.GetValue, data.Control) {
	if cv, ok := c.(*data.ThrowValue); ok {
		for _, catchBlock := range t.CatchBlocks {
			if catchTypeMatches(catchBlock.ExceptionType, cv) {
				if catchBlock.Variable != nil {
					ctx.SetVariableValue(catchBlock.Variable, c)
				}

				for _, catchStmt := range catchBlock.Body {
					_, c = catchStmt.GetValue(ctx)
					if c != nil {
						return nil, c
					}
				}

				return nil, nil
			}
		}
	} else {
		return nil, c
	}

	return nil, c
}

func NewTryStatement(token *TokenFrom, tryBlock []data.GetValue, catchBlocks []CatchBlock, finallyBlock []data.GetValue) *TryStatement {
	return &TryStatement{
		Node:         NewNode(token),
		TryBlock:     tryBlock,
		CatchBlocks:  catchBlocks,
		FinallyBlock: finallyBlock,
	}
}
