package cmd

import (
	"os"

	"github.com/php-any/origami/data"
	"github.com/php-any/origami/parser"
	"github.com/php-any/origami/runtime"
)

var runtimeLoader func(vm data.VM)

// SetRuntimeLoader 注册标准库加载闭包，由 main 包注入各 Load 调用。
func SetRuntimeLoader(fn func(vm data.VM)) {
	runtimeLoader = fn
}

// ExitStatusFatal 是脚本因未捕获的异常 / Fatal error / 解析错误而终止时 zy 的退出码。
// 与 php-cli 保持一致（php 在这些情况下以 255 退出）：退出码 1 无法和脚本自己的
// exit(1) 区分，CI 里分不清“脚本报告失败”和“脚本崩了”。
const ExitStatusFatal = 255

func getRuntimeVM() (*runtime.VM, *parser.Parser) {
	if runtimeLoader == nil {
		panic("runtime loader not set, call cmd.SetRuntimeLoader from main")
	}
	p := parser.NewParser()
	vm := runtime.NewVM(p).(*runtime.VM)
	runtimeLoader(vm)
	// 未捕获的异常：输出诊断信息后按命令行约定的退出码结束进程
	vm.SetThrowControl(func(acl data.Control) {
		p.ShowControl(acl)
		os.Exit(ExitStatusFatal)
	})
	return vm, p
}
