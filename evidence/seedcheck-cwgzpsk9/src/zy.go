package main

import (
	"os"

	_ "github.com/go-sql-driver/mysql"
	_ "modernc.org/sqlite"

	"github.com/php-any/origami/cmd"
	"github.com/php-any/origami/data"
	"github.com/php-any/origami/std"
	netannotation "github.com/php-any/origami/std/net/annotation"
	"github.com/php-any/origami/std/net/http"
	"github.com/php-any/origami/std/net/websocket"
	"github.com/php-any/origami/std/php"
	"github.com/php-any/origami/std/system"
)

func init() {
	cmd.SetRuntimeLoader(func(vm data.VM) {
		std.Load(vm)
		php.Load(vm)
		http.Load(vm)
		websocket.Load(vm)
		netannotation.Load(vm)
		system.Load(vm)
	})
}

func main() {
	if len(os.Args) > 1 && cmd.IsDirectScriptArg(os.Args[1]) {
		if err := cmd.RunScriptFile(os.Args[1]); err != nil {
			os.Exit(cmd.ExitStatusFatal)
		}
		return
	}

	if len(os.Args) == 1 {
		if err := cmd.RootHelp(); err != nil {
			os.Exit(1)
		}
		return
	}

	cmd.Execute()
}
