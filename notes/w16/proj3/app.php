<?php
echo \Lib\P::k(), "\n";
echo \Lib\P::K, \Lib\P::$s, "\n";
