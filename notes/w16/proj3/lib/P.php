<?php
namespace Lib;
class P { const K = 6; public static $s = 7; public static function k() { return self::K; } }
