<?php
namespace App;
interface I { const X = 41; function g(); }
class C implements I { function g() { return 1; } }
$c = new C();
echo $c->g(), " ", I::X, " ", ($c instanceof I) ? "yes" : "no", "\n";
