<?php
namespace App;
interface I { const X = 41; function g(); }
class C implements I { function g() { return 1; } }
function helper() { return 2; }
