<?php
class Greeter { function hi() { return "hi"; } }
$g = new Greeter();
echo $g->hi(), "\n";
