<?php
interface Seq extends Iterator {}
interface NamedSeq extends Seq {}
class Three implements NamedSeq {
    private $i = 0;
    public function current(): mixed { return $this->i * 10; }
    public function key(): mixed { return $this->i; }
    public function next(): void { $this->i++; }
    public function rewind(): void { $this->i = 0; }
    public function valid(): bool { return $this->i < 3; }
}
$o = new Three();
echo "instanceof Iterator: ", ($o instanceof Iterator) ? "yes" : "no", "\n";
echo "is_a Iterator:       ", is_a($o, 'Iterator') ? "yes" : "no", "\n";
echo "is_subclass_of:      ", is_subclass_of($o, 'Iterator') ? "yes" : "no", "\n";
try {
  echo "iterator_to_array:   ", implode(",", iterator_to_array($o)), "\n";
} catch (\Throwable $e) { echo "iterator_to_array threw: ", $e->getMessage(), "\n"; }
