<?php
class S { function __toString(){ return "s"; } }
class T { function r(): string { return new S; } }
function f(): string { return new S; }
function g(string $x) { return gettype($x); }
try { $v = (new T)->r(); echo "method: ", gettype($v), "\n"; } catch (\Throwable $e) { echo "method rejected\n"; }
try { $v = f(); echo "function: ", gettype($v), "\n"; } catch (\Throwable $e) { echo "function rejected\n"; }
try { echo "param: ", g(new S), "\n"; } catch (\Throwable $e) { echo "param rejected\n"; }
class S2 { function __toString(){ return 5; } }
class T { function r(): string { return new S2; } }
try { $v = (new T)->r(); echo "method returned: ", gettype($v), "\n"; } catch (\Throwable $e) { echo "method rejected\n"; }
