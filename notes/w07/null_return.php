<?php
class T { function r(): int { return null; } function s(): array { return null; } }
$t = new T;
try { $v = $t->r(); echo "returned: ", var_export($v, true), "\n"; } catch (Throwable $e) { echo "denied null for int\n"; }
try { $v = $t->s(); echo "returned: ", var_export($v, true), "\n"; } catch (Throwable $e) { echo "denied null for array\n"; }
function f(): int { return null; }
try { $v = f(); echo "fn returned: ", var_export($v, true), "\n"; } catch (Throwable $e) { echo "fn denied null for int\n"; }
