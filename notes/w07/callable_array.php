<?php
class P {
  private function m(){ return 5; }
  protected function q(){ return 6; }
  public function pub(){ return 7; }
  function viaArr(){ $c=[$this,'m']; return $c(); }
  function viaClosure(){ $f=function(){ $c=[$this,'m']; return $c(); }; return $f(); }
  function direct(){ $f=function(){ return $this->m(); }; return $f(); }
  function viaArrow(){ $f = fn() => [$this,'q'](); return $f(); }
}
class Q extends P {
  function sub(){ $c=[$this,'q']; return $c(); }
}
$p = new P;
echo $p->viaArr(), "\n";
echo $p->viaClosure(), "\n";
echo $p->direct(), "\n";
echo $p->viaArrow(), "\n";
echo (new Q)->sub(), "\n";
$c=[$p,'pub']; echo $c(), "\n";
try { $c=[$p,'m']; echo $c(), "\n"; } catch (\Throwable $e) { echo "private rejected\n"; }
try { $c=[$p,'q']; echo $c(), "\n"; } catch (\Throwable $e) { echo "protected rejected\n"; }
try { echo $p->m(), "\n"; } catch (\Throwable $e) { echo "direct private rejected\n"; }
