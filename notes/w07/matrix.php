<?php
abstract class A { abstract function f(); }
interface I { function g(); }
class C extends A { function f() { return 1; } }
class D implements I { function g() { return 2; } }
class Bad extends A { }
try { $x = new A(); echo "abstract instantiated\n"; } catch (Throwable $e) { echo "denied A\n"; }
try { $x = new I(); echo "interface instantiated\n"; } catch (Throwable $e) { echo "denied I\n"; }
try { $n = 'A'; $x = new $n(); echo "dyn abstract instantiated\n"; } catch (Throwable $e) { echo "denied dyn A\n"; }
try { $x = new Bad(); echo "incomplete instantiated\n"; } catch (Throwable $e) { echo "denied Bad\n"; }
class P { private $s = 1; protected $t = 2; public $u = 3; private static $ps = 78; private static function pf() { return 79; } private function m() { return 5; } }
$p = new P;
try { echo $p->s, "\n"; } catch (Throwable $e) { echo "denied s\n"; }
try { echo $p->t, "\n"; } catch (Throwable $e) { echo "denied t\n"; }
try { echo P::$ps, "\n"; } catch (Throwable $e) { echo "denied ps\n"; }
try { echo P::pf(), "\n"; } catch (Throwable $e) { echo "denied pf\n"; }
try { echo $p->m(), "\n"; } catch (Throwable $e) { echo "denied m\n"; }
try { $n='s'; echo $p->$n, "\n"; } catch (Throwable $e) { echo "denied dyn s\n"; }
try { $n='m'; echo $p->$n(), "\n"; } catch (Throwable $e) { echo "denied dyn m\n"; }
try { $p->s = 9; echo "wrote s\n"; } catch (Throwable $e) { echo "denied write s\n"; }
class Q extends P { function peek($o) { return $o->s; } function peekT($o) { return $o->t; } }
try { echo (new Q)->peek($p), "\n"; } catch (Throwable $e) { echo "denied sub->private\n"; }
try { echo (new Q)->peekT($p), "\n"; } catch (Throwable $e) { echo "denied sub->protected\n"; }
class T { public int $n = 1; public static int $sn = 1; function setN(int $x): int { return $x; } function r(): int { return "str"; } }
$t = new T;
try { $t->n = "abc"; echo "stored str in int prop\n"; } catch (Throwable $e) { echo "denied prop type\n"; }
try { T::$sn = "abc"; echo "stored str in static int prop\n"; } catch (Throwable $e) { echo "denied static prop type\n"; }
try { $t->setN("abc"); echo "passed str to int param\n"; } catch (Throwable $e) { echo "denied param type\n"; }
try { $t->r(); echo "returned str from int fn\n"; } catch (Throwable $e) { echo "denied return type\n"; }
