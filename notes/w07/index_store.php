<?php
class T { public int $n = 1; function viaThis() { $this['n'] = "inner"; return $this->n; } }
$t = new T;
try { $t['n'] = "abc"; echo "stored via index: ", $t->n, "\n"; } catch (Throwable $e) { echo "denied index store\n"; }
try { echo $t->viaThis(), "\n"; } catch (Throwable $e) { echo "denied this-index store\n"; }
