<?php
class P { private function m() { return 5; } public static int $sn = 1; static function setBad() { self::$sn = "abc"; return self::$sn; } static function setBad2() { static::$sn = "xyz"; return static::$sn; } }
$p = new P;
try { $c = [$p, 'm']; echo $c(), "\n"; } catch (Throwable $e) { echo "denied callable-array m\n"; }
try { echo P::setBad(), "\n"; } catch (Throwable $e) { echo "denied self typed static store\n"; }
try { echo P::setBad2(), "\n"; } catch (Throwable $e) { echo "denied static typed static store\n"; }
abstract class AB { public $x = 1; }
try { $o = AB {}; echo "init-class abstract instantiated\n"; } catch (Throwable $e) { echo "denied AB {}\n"; }
abstract class GB<T> { public T $v; }
try { $o = new GB<int>(); echo "generic abstract instantiated\n"; } catch (Throwable $e) { echo "denied generic abstract\n"; }
