<?php
$a = ['one' => 1, 'two' => 2, 'three' => 3, 'four' => 4, 'five' => 5, 'six' => 2];
echo "filter:   ", implode(",", array_keys(array_filter($a, function($v) { return $v > 1; }))), "\n";
echo "filter0:  ", implode(",", array_keys(array_filter($a))), "\n";
echo "filterk:  ", implode(",", array_keys(array_filter($a, function($k) { return $k != 'two'; }, ARRAY_FILTER_USE_KEY))), "\n";
echo "replace:  ", implode(",", array_keys(array_replace($a, ['seven' => 7, 'one' => 0]))), "\n";
echo "replacer: ", implode(",", array_keys(array_replace_recursive($a, ['seven' => 7]))), "\n";
echo "merge:    ", implode(",", array_keys(array_merge($a, ['zero' => 0]))), "\n";
echo "merger:   ", implode(",", array_keys(array_merge_recursive($a, ['zero' => 0]))), "\n";
echo "unique:   ", implode(",", array_keys(array_unique($a))), "\n";
echo "values:   ", implode(",", array_values($a)), "\n";
echo "slice:    ", implode(",", array_keys(array_slice($a, 1, 3))), "\n";
echo "flip:     ", implode(",", array_keys(array_flip(['x', 'y', 'z', 'w', 'v']))), "\n";
