<?php
#[Attribute]
class Route {
    public function __construct(public string $path = '', public string $method = 'GET', public string $name = '', public int $prio = 0, public string $host = '', public string $scheme = '') {}
}
#[Route(path: '/x', method: 'POST', name: 'n', prio: 3, host: 'h', scheme: 's')]
class Ctl {}
$rc = new ReflectionClass('Ctl');
$attrs = $rc->getAttributes();
$inst = $attrs[0]->newInstance();
foreach ($inst as $k => $v) { echo $k, "=", $v, " "; }
echo "\n";
echo json_encode($inst), "\n";
