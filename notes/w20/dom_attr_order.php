<?php
$d = new DOMDocument();
$d->loadHTML('<div><a b="1" c="2" d="3" e="4" f="5" g="6">t</a></div>');
$list = $d->getElementsByTagName('a');
echo $list->count(), "\n";
$x = $d->saveXML($list->item(0));
echo $x, "\n";
