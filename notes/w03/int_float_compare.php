<?php
var_dump(1 < 1.5);
var_dump(1 <= 0.5);
var_dump(2 > 2.5);
var_dump(1 == 1.5);
var_dump(1 != 1.5);
var_dump(1 >= 1.5);
var_dump(null + 1.5);
$a = 1; $b = 1.5;
var_dump($a < $b);
var_dump($a == $b);
