<?php
switch (1.5) { case 1: echo "one\n"; break; case 1.5: echo "onehalf\n"; break; default: echo "default\n"; }
switch (2) { case 2.0: echo "two\n"; break; default: echo "default\n"; }
switch ("1.5") { case 1.5: echo "s-onehalf\n"; break; default: echo "default\n"; }
switch (3) { case 3: echo "three\n"; break; }
