<?php
$x = 1; $y = 1.5;
var_dump($x * $y, $x - $y);   // before the fix: int(1), int(0); after: float(1.5), float(-0.5)
