<?php
function h($r, $w) {
    $a = $_GET['id'] . '|' . $_REQUEST['id'] . '|' . $_COOKIE['c'] . '|' . $_SERVER['QUERY_STRING'] . '|' . $_POST['p'];
    if ($_GET['id'] == 'A') { sleep(1); }
    $b = $_GET['id'] . '|' . $_REQUEST['id'] . '|' . $_COOKIE['c'] . '|' . $_SERVER['QUERY_STRING'] . '|' . $_POST['p'];
    $w->write($a . "," . $b);
}
