package w11

import (
	"net/http/httptest"
	"strings"
	"sync"
	"testing"
	"time"

	"github.com/php-any/origami/parser"
	"github.com/php-any/origami/runtime"
	"github.com/php-any/origami/std"
	nethttp "github.com/php-any/origami/std/net/http"
	"github.com/php-any/origami/std/php"
)

func TestOverlap(t *testing.T) {
	p := parser.NewParser()
	vm := runtime.NewVM(p)
	std.Load(vm)
	php.Load(vm)
	if _, acl := vm.LoadAndRun("h.php"); acl != nil {
		t.Fatal(acl)
	}
	fn, ok := vm.GetFunc("h")
	if !ok {
		t.Fatal("no h")
	}
	h := nethttp.Handler{Value: fn, Ctx: vm.CreateContext(nil)}
	var wg sync.WaitGroup
	out := map[string]string{}
	var mu sync.Mutex
	run := func(id string, delay time.Duration) {
		defer wg.Done()
		time.Sleep(delay)
		rec := httptest.NewRecorder()
		req := httptest.NewRequest("POST", "/?id="+id, strings.NewReader("p="+id))
		req.Header.Set("Content-Type", "application/x-www-form-urlencoded")
		req.Header.Set("Cookie", "c="+id)
		h.ServeHTTP(rec, req)
		mu.Lock()
		out[id] = rec.Body.String()
		mu.Unlock()
	}
	wg.Add(2)
	go run("A", 0)
	go run("B", 300*time.Millisecond)
	wg.Wait()
	t.Logf("A=%q B=%q", out["A"], out["B"])
	if !strings.HasPrefix(out["A"], "A|A|A|id=A|A,A|A|A|id=A|A") {
		t.Fatalf("interference: A=%q B=%q", out["A"], out["B"])
	}
}
