<?php
$a = [1, 2, 3];
$b = $a;
array_walk($b, function($v) { return $v * 10; });
echo "a=", implode(",", $a), " b=", implode(",", $b), "\n";
function f(array $p) { array_walk($p, function($v) { return $v + 1; }); return $p; }
$c = [5, 6];
$d = f($c);
echo "c=", implode(",", $c), " d=", implode(",", $d), "\n";
