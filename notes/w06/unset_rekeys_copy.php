<?php
$a = [10,20,30];
$b = $a;
array_shift($b);
echo "b before: "; foreach ($b as $k => $v) { echo "$k=$v "; } echo "\n";
unset($a[0]);
echo "b after unset(a[0]): "; foreach ($b as $k => $v) { echo "$k=$v "; } echo "\n";
echo "a: "; foreach ($a as $k => $v) { echo "$k=$v "; } echo "\n";
