<?php
$g = array_pad([], 3, [0, 0]);
$g[0][1] = 5;
echo json_encode($g), "\n";
$k = array_fill_keys(['a', 'b'], [0, 0]);
$k['a'][1] = 5;
echo json_encode($k), "\n";
