<?php
$a = [5,3,9,1];
unset($a[1]);
$b = $a;
usort($b, function($p,$q){ return $p <=> $q; });
var_dump(array_keys($a));
var_dump(array_keys($b));
foreach ($a as $k => $v) { echo "$k=$v "; } echo "\n";
