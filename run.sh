#!/bin/bash
# usage: run.sh <Cxx|all> <quick|thorough>
# Static decision of one property against /repo's current working tree.
set -u
cd "$(dirname "$0")"
export PATH=/opt/veriftools/go1.26.8/bin:$PATH
export GOTOOLCHAIN=local GOFLAGS=-mod=mod GOPROXY=off GOSUMDB=off GOWORK=off
unset GOWORK_FILE 2>/dev/null
PROP="${1:?property id}"
TIER="${2:-quick}"
if [ ! -x bin/origamilint ] || [ -n "$(find lint -name '*.go' -newer bin/origamilint 2>/dev/null | head -1)" ]; then
  ./setup.sh >/dev/null 2>&1 || { echo "CHECKER-ERROR: cannot build the checker"; ./setup.sh; exit 2; }
fi
exec ./bin/origamilint -prop "$PROP" -tier "$TIER" -repo "${VERIF_REPO:-/repo}" -verif "$(pwd)"
