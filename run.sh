#!/bin/bash
# usage: run.sh <Cxx|all> <quick|thorough>
# Static decision of one property against /repo's current working tree.
set -u
cd "$(dirname "$0")"
export PATH=/opt/veriftools/go1.26.8/bin:$PATH
export GOTOOLCHAIN=local GOFLAGS=-mod=mod GOPROXY=off GOSUMDB=off GOWORK=off
unset GOWORK_FILE 2>/dev/null
PROP="${1:?property id}"
TIER="${2:-quick}"
if [ ! -x bin/origamilint ] || [ -n "$(find lint -name '*.go' -newer bin/origamilint 2>/dev/null | head -1)" ]; then
  ./setup.sh >/dev/null 2>&1 || { echo "CHECKER-ERROR: cannot build the checker"; ./setup.sh; exit 2; }
fi
./bin/origamilint -prop "$PROP" -tier "$TIER" -repo "${VERIF_REPO:-/repo}" -verif "$(pwd)"
rc=$?
# thorough = the same decision plus the checker's sensitivity run: every recorded single-edit
# variant of the current tree (source overlay, no copy) must make its rule report
if [ "$TIER" = "thorough" ] && [ "$rc" -eq 0 ] && [ "$PROP" != "all" ]; then
  python3 tools/selftest.py "$PROP" "${VERIF_REPO:-/repo}"
  rc=$?
fi
exit $rc
