#!/bin/bash
# builds the checker from the sources in /verif/lint (offline: module cache only)
set -eu
cd "$(dirname "$0")/lint"
export PATH=/opt/veriftools/go1.26.8/bin:$PATH
export GOTOOLCHAIN=local GOFLAGS=-mod=mod GOPROXY=off GOSUMDB=off GOWORK=off
mkdir -p ../bin ../evidence
go build -o ../bin/origamilint .
echo "built $(pwd)/../bin/origamilint"
